(* C02 -- Reported log-determinants equal the true log|det Jacobian|.
   This file contains only the property theorems (each closed by [exact]), their
   [Print Assumptions], and [Example]s (non-vacuity: concrete instances meet the hypotheses).
   Related statements are grouped into one theorem (a conjunction) because every
   [Print Assumptions] over Coquelicot costs 1-2 s.
   Model: Model/Leaves.v (executable, extracted, compared with flowjax on every run).
   Lemmas: Proofs/LeafDerivP.v (scalar leaves, gluing, lifting, chains, inverse law),
           Proofs/RqsDerivP.v (spline), Proofs/DetP.v (MathComp determinants at R),
           Proofs/DetPJac.v (triangular Jacobians, MAF, Coupling, Planar, vector chains),
           Proofs/DetPC02.v (the statements below as lemmas: conjunctions of the lemmas above).
   All statements are exact over R (float rounding is not modelled); derivatives are Coquelicot's
   [is_derive].  Axioms: the four of Reals/Coquelicot (sig_forall_dec, sig_not_dec,
   functional_extensionality_dep, classic) and, for the determinant theorems only,
   Epsilon.epsilon_statement (choiceType instance of R needed by MathComp's matrix library).

   Vocabulary (definitions in Proofs/, unfolded by C02_vocabulary):
     is_ldj f x l      l is the log|det Jacobian| of the scalar map f at x:
                       exists d, is_derive f x d /\ d <> 0 /\ l = ln |d|
     right_deriv/left_deriv f a l   one-sided derivatives, epsilon-delta form
     layer X           {fwd; inv; ldf; ldi; dom; cod} an abstract bijection with both log-dets
     layer_ok l        l is a bijection dom<->cod and ldi y = - ldf (inv y) on cod
     partial_at F x i j d           d = dF_i/dx_j at x (is_derive in coordinate j)
     detF n J          the determinant of the n x n real matrix (J i j), MathComp's \det
                       (C02_detF_is_det at the end of the file) *)
From Coq Require Import Reals List ZArith Bool Lra Lia Sorted.
From Coquelicot Require Import Coquelicot.
From FJ Require Import Model.Num Model.Leaves Proofs.RNum Proofs.LeafDerivP Proofs.RqsDerivP
                       Proofs.DetP Proofs.DetPJac Proofs.DetPC02.
From FJ Require Proofs.InvFunP.
Import ListNotations.
Open Scope R_scope.

Theorem C02_vocabulary :
  (forall (f : R -> R) (x l : R),
     is_ldj f x l <-> exists d, is_derive f x d /\ d <> 0 /\ l = ln (Rabs d)) /\
  (forall (f : R -> R) (a l : R),
     (right_deriv f a l <-> forall eps, 0 < eps -> exists delta, 0 < delta /\
         forall h, 0 < h < delta -> Rabs ((f (a + h) - f a) / h - l) < eps) /\
     (left_deriv f a l <-> forall eps, 0 < eps -> exists delta, 0 < delta /\
         forall h, - delta < h < 0 -> Rabs ((f (a + h) - f a) / h - l) < eps) /\
     (left_deriv f a l -> right_deriv f a l -> is_derive f a l) /\
     (is_derive f a l -> left_deriv f a l /\ right_deriv f a l)) /\
  (forall (X : Type) (l : layer X),
     layer_ok l <->
     (forall x, l_dom l x -> l_cod l (l_fwd l x) /\ l_inv l (l_fwd l x) = x) /\
     (forall y, l_cod l y -> l_dom l (l_inv l y) /\ l_fwd l (l_inv l y) = y /\
                             l_ldi l y = - l_ldf l (l_inv l y))) /\
  (* chain.py: log_abs_det_jac = 0; for b in bijections / reversed(bijections): ... += ... *)
  (forall (X : Type) (ls : list (layer X)) (x y : X),
     chain_fwd_ld ls x = fold_left (fun s l => (l_fwd l (fst s), snd s + l_ldf l (fst s))) ls (x, 0) /\
     chain_inv_ld ls y = fold_left (fun s l => (l_inv l (fst s), snd s + l_ldi l (fst s))) (rev ls) (y, 0)) /\
  (forall (F : list R -> list R) (x : list R) (i j : nat) (d : R),
     partial_at F x i j d <-> is_derive (fun t => nth i (F (upd x j t)) 0) (nth j x 0) d).
Proof. exact c02_vocabulary. Qed.
Print Assumptions C02_vocabulary.

(* ====================================================================================== *)
(* 1. Scalar leaves: the derivative written out, and reported log-det = ln |derivative|,     *)
(*    for ALL real inputs.                                                                   *)
(* ====================================================================================== *)

(* Affine / Scale: derivative = scale (negative scales included), log-det = ln |scale|;
   Loc: derivative 1, reported log-det 0. *)
Theorem C02_affine_family :
  (forall loc scale x : R, is_derive (affine_fwd ROps loc scale) x scale) /\
  (forall loc scale x : R, scale <> 0 -> is_ldj (affine_fwd ROps loc scale) x (affine_ld ROps scale)) /\
  (forall scale : R, affine_ld ROps scale = ln (Rabs scale)) /\
  (forall scale x : R, is_derive (scale_fwd ROps scale) x scale) /\
  (forall scale x : R, scale <> 0 -> is_ldj (scale_fwd ROps scale) x (affine_ld ROps scale)) /\
  (forall loc x : R, is_derive (loc_fwd ROps loc) x 1 /\ is_ldj (loc_fwd ROps loc) x 0).
Proof. exact c02_affine_family. Qed.
Print Assumptions C02_affine_family.

(* Exp: reported log-det x = ln |exp x|.
   SoftPlus: -softplus(-x) = ln (e^x / (1 + e^x)) = ln |softplus'(x)| *)
Theorem C02_exp_softplus :
  (forall x : R, is_derive (exp_fwd ROps) x (exp x) /\ exp_ld_fwd x = ln (Rabs (exp x)) /\
                 is_ldj (exp_fwd ROps) x (exp_ld_fwd x)) /\
  (forall x : R, is_derive (softplus_fwd ROps) x (exp x / (1 + exp x)) /\
                 softplus_ld_fwd ROps x = ln (Rabs (exp x / (1 + exp x))) /\
                 is_ldj (softplus_fwd ROps) x (softplus_ld_fwd ROps x)).
Proof. exact c02_exp_softplus. Qed.
Print Assumptions C02_exp_softplus.

(* Tanh ([th] of RNum.v is tanh).
   tanh_log_grad_spec: _tanh_log_grad x = -2 (x + softplus(-2x) - ln 2) = ln (1 - tanh^2 x);
   tanh' = 1 - tanh^2 > 0 *)
Theorem C02_tanh :
  (forall x : R, th x = tanh x) /\
  (forall x : R, tanh_log_grad ROps x = ln (1 - th x * th x)) /\
  (forall x : R, is_derive (tanh_fwd ROps) x (1 - th x * th x) /\ 0 < 1 - th x * th x /\
                 is_ldj (tanh_fwd ROps) x (tanh_ld_fwd ROps x)).
Proof. exact c02_tanh. Qed.
Print Assumptions C02_tanh.

(* LeakyTanh with the fields its constructor stores: linear_grad = exp(_tanh_log_grad(max_val))
   = 1 - tanh^2 max_val, intercept = tanh max_val - linear_grad * max_val.  Differentiable at EVERY
   real x, the switch points +-max_val included (both one-sided slopes equal linear_grad there);
   the reported log-det is the log of that derivative. *)
Theorem C02_leaky_tanh :
  (forall m : R, leaky_grad ROps m = 1 - th m * th m) /\
  (forall m : R, 0 < m -> forall x : R,
     is_derive (leaky_fwd ROps m (leaky_grad ROps m) (leaky_icpt ROps m)) x
               (if Rleb m (Rabs x) then leaky_grad ROps m else 1 - th x * th x)) /\
  (forall m : R, 0 < m -> forall x : R,
     is_ldj (leaky_fwd ROps m (leaky_grad ROps m) (leaky_icpt ROps m)) x
            (leaky_ld_fwd ROps m (leaky_grad ROps m) x)).
Proof. exact c02_leaky_tanh. Qed.
Print Assumptions C02_leaky_tanh.

(* ---------------------------------------------------------------------------------------- *)
(* Rational-quadratic spline.  [rqs_valid]: strictly increasing knots from interval[0] to
   interval[1] in x and in y, K+2 entries each, positive derivatives.                        *)
Theorem C02_rqs_valid_def : forall (xp yp dv : list R) (lo hi : R),
  rqs_valid xp yp dv lo hi <->
  (StronglySorted Rlt xp /\ StronglySorted Rlt yp /\ (2 <= length xp)%nat /\
   length yp = length xp /\ length dv = length xp /\ List.Forall (fun d => 0 < d) dv /\
   nth 0 xp 0 = lo /\ last xp 0 = hi /\ nth 0 yp 0 = lo /\ last yp 0 = hi).
Proof. exact c02_rqs_valid_def. Qed.
Print Assumptions C02_rqs_valid_def.

(* (a) strictly inside the interval -- bins AND interior knots (there both one-sided derivatives are
       the knot's derivative parameter): derivative() is the derivative of transform();
   (b) outside the interval: identity, derivative 1;
   (c) at a knot x_pos[j], j >= 1, derivative() reports derivatives[j];
   (d) the reported derivative is positive at every real x, hence log(derivative) = ln |derivative|;
   (e) summary: is_ldj everywhere except the two interval ends. *)
Theorem C02_rqs : forall (xp yp dv : list R) (lo hi : R), rqs_valid xp yp dv lo hi ->
  (forall x : R, lo < x < hi ->
     is_derive (rqs_fwd ROps xp yp dv lo hi) x (rqs_deriv ROps xp yp dv lo hi x)) /\
  (forall x : R, x < lo \/ hi < x ->
     is_derive (rqs_fwd ROps xp yp dv lo hi) x (rqs_deriv ROps xp yp dv lo hi x) /\
     rqs_deriv ROps xp yp dv lo hi x = 1) /\
  (forall j : Z, (1 <= j <= Z.of_nat (length xp) - 1)%Z ->
     rqs_deriv ROps xp yp dv lo hi (getz ROps xp j) = getz ROps dv j) /\
  (forall x : R, 0 < rqs_deriv ROps xp yp dv lo hi x /\
     rqs_ld_fwd ROps xp yp dv lo hi x = ln (Rabs (rqs_deriv ROps xp yp dv lo hi x))) /\
  (forall x : R, x <> lo -> x <> hi ->
     is_ldj (rqs_fwd ROps xp yp dv lo hi) x (rqs_ld_fwd ROps xp yp dv lo hi x)).
Proof. exact c02_rqs. Qed.
Print Assumptions C02_rqs.

(* the two interval ends: what derivative() reports there is the INNER one-sided derivative (the end
   derivative parameter); the outer one-sided derivative is 1; so the map has a kink exactly when
   that parameter differs from 1, and is differentiable with the reported value otherwise.
   (This is the statement the code satisfies; "log|det dy/dx|" is not defined at a kink.) *)
Theorem C02_rqs_interval_ends : forall (xp yp dv : list R) (lo hi : R), rqs_valid xp yp dv lo hi ->
  let f := rqs_fwd ROps xp yp dv lo hi in let f' := rqs_deriv ROps xp yp dv lo hi in
  let d_first := getz ROps dv 0 in let d_last := getz ROps dv (Z.of_nat (length xp) - 1) in
  (f' lo = d_first /\ right_deriv f lo (f' lo) /\ left_deriv f lo 1) /\
  (f' hi = d_last /\ left_deriv f hi (f' hi) /\ right_deriv f hi 1) /\
  (d_first = 1 -> is_derive f lo (f' lo)) /\ (d_first <> 1 -> ~ exists d, is_derive f lo d) /\
  (d_last = 1 -> is_derive f hi (f' hi)) /\ (d_last <> 1 -> ~ exists d, is_derive f hi d).
Proof. exact c02_rqs_interval_ends. Qed.
Print Assumptions C02_rqs_interval_ends.

(* ====================================================================================== *)
(* 2. The inverse log-det is minus the forward one at the corresponding point               *)
(* ====================================================================================== *)
(* per leaf, on the leaf's codomain (fwd (inv y) = y is what "corresponding point" means);
   LeakyTanh: the inverse's branch test is on y (|y| >= tanh max_val), the forward's on x. *)
Theorem C02_ldj_inverse_law_leaves :
  (forall loc scale : R, scale <> 0 ->
     layer_ok (affine_layer loc scale) /\ layer_ok (scale_layer scale) /\ layer_ok (loc_layer loc)) /\
  (forall y : R, 0 < y ->
     exp_fwd ROps (exp_inv ROps y) = y /\ exp_ld_inv ROps y = - exp_ld_fwd (exp_inv ROps y)) /\
  (forall y : R, 0 < y ->
     softplus_fwd ROps (softplus_inv ROps y) = y /\
     softplus_ld_inv ROps y = - softplus_ld_fwd ROps (softplus_inv ROps y)) /\
  (forall y : R, -1 < y < 1 ->
     tanh_fwd ROps (tanh_inv ROps y) = y /\ tanh_ld_inv ROps y = - tanh_ld_fwd ROps (tanh_inv ROps y)) /\
  (forall m : R, 0 < m -> forall y : R,
     let g := leaky_grad ROps m in let ic := leaky_icpt ROps m in
     leaky_fwd ROps m g ic (leaky_inv ROps m g ic y) = y /\
     leaky_inv ROps m g ic (leaky_fwd ROps m g ic y) = y /\
     leaky_ld_inv ROps m g ic y = - leaky_ld_fwd ROps m g (leaky_inv ROps m g ic y)) /\
  (forall (xp yp dv : list R) (lo hi y : R),
     rqs_ld_inv ROps xp yp dv lo hi y = - rqs_ld_fwd ROps xp yp dv lo hi (rqs_inv ROps xp yp dv lo hi y)).
Proof. exact c02_ldj_inverse_law_leaves. Qed.
Print Assumptions C02_ldj_inverse_law_leaves.

(* generic: Chain (any number of layers, any value type) and Invert preserve the law; so does every
   nesting of the two; and what the law says of a layer. *)
Theorem C02_ldj_inverse_law :
  (forall (X : Type) (ls : list (layer X)), List.Forall layer_ok ls -> layer_ok (chain_layer ls)) /\
  (forall (X : Type) (l : layer X), layer_ok l -> layer_ok (invert_layer l)) /\
  (forall (X : Type) (l : layer X) (y : X), layer_ok l -> l_cod l y ->
     l_fwd l (l_inv l y) = y /\ l_ldi l y = - l_ldf l (l_inv l y)).
Proof. exact c02_ldj_inverse_law. Qed.
Print Assumptions C02_ldj_inverse_law.

(* ====================================================================================== *)
(* 3. Elementwise lifting and chains                                                         *)
(* ====================================================================================== *)
(* arrays of any length (flat data of any rank): the reported log-det is the sum over all elements
   = sum_i ln |f'(x_i)| = ln |prod_i f'(x_i)| (the determinant of the diagonal Jacobian) *)
Theorem C02_lift_ldj : forall (f ld d : R -> R) (xs : list R),
  (forall x, In x xs -> is_derive f x (d x) /\ d x <> 0 /\ ld x = ln (Rabs (d x))) ->
  lift_ld ROps ld xs = sum ROps (map (fun x => ln (Rabs (d x))) xs) /\
  lift_ld ROps ld xs = ln (Rabs (prodR (map d xs))) /\ prodR (map d xs) <> 0 /\
  List.Forall2 (fun x y => y = f x) xs (lift f xs).
Proof. exact c02_lift_ldj. Qed.
Print Assumptions C02_lift_ldj.

(* the log-det of a Chain is the sum of the layers' log-dets at the running intermediate values
   (any value type, any number of layers); for rank-0 chains:
   ldj (chain) x = ln |(f_n o ... o f_1)'(x)|  (is_derive_comp) *)
Theorem C02_chain :
  (forall (X : Type) (ls : list (layer X)) (x : X),
     chain_fwd_ld ls x = (comp_fwd ls x, comp_ldf ls x) /\
     (forall l t, comp_fwd (l :: t) x = comp_fwd t (l_fwd l x) /\
                  comp_ldf (l :: t) x = l_ldf l x + comp_ldf t (l_fwd l x)) /\
     comp_fwd (@nil (layer X)) x = x /\ comp_ldf (@nil (layer X)) x = 0) /\
  (forall ls : list (layer R),
     List.Forall (fun l => forall x, l_dom l x -> is_ldj (l_fwd l) x (l_ldf l x)) ls ->
     forall x : R, comp_dom ls x ->
     is_ldj (fun t => fst (chain_fwd_ld ls t)) x (snd (chain_fwd_ld ls x))).
Proof. exact c02_chain. Qed.
Print Assumptions C02_chain.

(* Invert at rank 0: the log-det it reports in its own forward direction (= the inner inverse
   log-det = minus the inner forward one at g y, by C02_ldj_inverse_law) is ln |g'(y)| for the inverse
   map g.  _partial: differentiability of g at y (the inverse function theorem) is a hypothesis;
   full statement: without [is_derive g y e]. *)
Theorem C02_invert_ldj_rank0_partial : forall (f g : R -> R) (y lf e eps : R),
  is_ldj f (g y) lf -> 0 < eps -> (forall t, y - eps < t < y + eps -> f (g t) = t) ->
  is_derive g y e -> is_ldj g y (- lf).
Proof. exact c02_invert_ldj_rank0_partial. Qed.
Print Assumptions C02_invert_ldj_rank0_partial.

(* The full statement: no differentiability hypothesis on g.  The local inverse function theorem
   (Proofs/InvFunP.v) gives g'(y) = 1 / f'(g y) from differentiability of f at the single point g y,
   f (g t) = t near y and CONTINUITY of g at y. *)
Theorem C02_invert_ldj_rank0 : forall (f g : R -> R) (y lf eps : R),
  is_ldj f (g y) lf -> 0 < eps -> (forall t, y - eps < t < y + eps -> f (g t) = t) ->
  continuous g y -> is_ldj g y (- lf).
Proof. exact InvFunP.inverse_is_ldj. Qed.
Print Assumptions C02_invert_ldj_rank0.

Theorem C02_invert_derivative_rank0 : forall (f g : R -> R) (y d eps : R),
  is_derive f (g y) d -> d <> 0 -> 0 < eps -> (forall t, y - eps < t < y + eps -> f (g t) = t) ->
  continuous g y -> is_derive g y (/ d).
Proof. exact InvFunP.inverse_derive_value. Qed.
Print Assumptions C02_invert_derivative_rank0.

(* ... and continuity cannot be dropped: a right inverse that jumps between two branches of f at y
   satisfies every other hypothesis and has no derivative there. *)
Theorem C02_invert_ldj_needs_continuity_refuted :
  is_ldj InvFunP.cx_f (InvFunP.cx_g 0) 0 /\
  (forall t, 0 - 1 < t < 0 + 1 -> InvFunP.cx_f (InvFunP.cx_g t) = t) /\
  ~ (exists l, is_ldj InvFunP.cx_g 0 l).
Proof. exact InvFunP.invert_ldj_needs_continuity. Qed.
Print Assumptions C02_invert_ldj_needs_continuity_refuted.

(* Invert(leaf) for the scalar leaves, unconditionally: inverse() is differentiable at every point of
   the codomain (for LeakyTanh also at +-tanh(max_val): gluing) and the log-det reported with it is
   ln |inverse'(y)|; hence rank-0 chains of inverted leaves are covered by C02_chain as well. *)
Theorem C02_invert_leaves : 
  (forall loc scale y : R, scale <> 0 -> is_ldj (affine_inv ROps loc scale) y (- affine_ld ROps scale)) /\
  (forall scale y : R, scale <> 0 -> is_ldj (scale_inv ROps scale) y (- affine_ld ROps scale)) /\
  (forall loc y : R, is_ldj (loc_inv ROps loc) y 0) /\
  (forall y : R, 0 < y -> is_ldj (exp_inv ROps) y (exp_ld_inv ROps y)) /\
  (forall y : R, 0 < y -> is_ldj (softplus_inv ROps) y (softplus_ld_inv ROps y)) /\
  (forall y : R, -1 < y < 1 -> is_ldj (tanh_inv ROps) y (tanh_ld_inv ROps y)) /\
  (forall m : R, 0 < m -> forall y : R,
     is_ldj (leaky_inv ROps m (leaky_grad ROps m) (leaky_icpt ROps m)) y
            (leaky_ld_inv ROps m (leaky_grad ROps m) (leaky_icpt ROps m) y)) /\
  (* the generic step: Invert of any rank-0 layer whose codomain is open and whose inverse map is
     differentiable (the leaves above; for the spline differentiability of inverse() is not proved) *)
  (forall l : layer R, layer_ok l ->
     (forall x, l_dom l x -> is_ldj (l_fwd l) x (l_ldf l x)) ->
     (forall y, l_cod l y -> exists eps, 0 < eps /\ forall t, y - eps < t < y + eps -> l_cod l t) ->
     (forall y, l_cod l y -> exists e, is_derive (l_inv l) y e) ->
     forall y, l_cod l y -> is_ldj (l_inv l) y (l_ldi l y)).
Proof. exact c02_invert_leaves. Qed.
Print Assumptions C02_invert_leaves.

(* ====================================================================================== *)
(* 4. Determinants: triangular maps, planar                                                  *)
(* ====================================================================================== *)
(* det of a triangular matrix = product of the diagonal (MathComp det_trig at R);
   TriangularAffine: log|diag|.sum() = ln |det triangular| (lower or upper, non-zero diagonal, any
   sign), and the Jacobian of x |-> triangular @ x + loc is that matrix, entry by entry *)
Theorem C02_triangular_affine :
  (forall (n : nat) (F : nat -> nat -> R),
     ((forall i j, (i < j)%nat -> (j < n)%nat -> F i j = 0) \/
      (forall i j, (j < i)%nat -> (i < n)%nat -> F i j = 0)) ->
     detF n F = prodR (map (fun i => F i i) (seq 0 n))) /\
  (forall m : list (list R), let n := length m in
     ((forall i j, (i < j)%nat -> (j < n)%nat -> mentry m i j = 0) \/
      (forall i j, (j < i)%nat -> (i < n)%nat -> mentry m i j = 0)) ->
     (forall i, (i < n)%nat -> mentry m i i <> 0) ->
     tri_ld ROps m = ln (Rabs (prodR (diag ROps m))) /\
     tri_ld ROps m = ln (Rabs (detF n (mentry m))) /\ detF n (mentry m) <> 0) /\
  (forall (m : list (list R)) (loc x : list R) (i j : nat), let n := length m in
     length x = n -> length loc = n -> (forall r, In r m -> length r = n) -> (i < n)%nat -> (j < n)%nat ->
     is_derive (fun t => nth i (tri_fwd ROps m loc (upd x j t)) 0) (nth j x 0) (nth j (nth i m []) 0)).
Proof. exact c02_triangular_affine. Qed.
Print Assumptions C02_triangular_affine.

(* any map with y_i independent of x_j (j > i) and own-coordinate log-derivatives l_i: for ANY matrix J
   whose entries on and above the diagonal are the partial derivatives, sum_i l_i = ln |det J| *)
Theorem C02_tri_jacobian_ldj : forall (n : nat) (F : list R -> list R) (x : list R) (l : nat -> R) (J : nat -> nat -> R),
  (forall i j t, (i < j)%nat -> (j < n)%nat -> nth i (F (upd x j t)) 0 = nth i (F x) 0) ->
  (forall i, (i < n)%nat -> is_ldj (fun t => nth i (F (upd x i t)) 0) (nth i x 0) (l i)) ->
  (forall i j, (i <= j)%nat -> (j < n)%nat -> partial_at F x i j (J i j)) ->
  sum ROps (map l (seq 0 n)) = ln (Rabs (detF n J)) /\ detF n J <> 0.
Proof. exact c02_tri_jacobian_ldj. Qed.
Print Assumptions C02_tri_jacobian_ldj.

(* MaskedAutoregressive with an ARBITRARY autoregressive conditioner g and any transformer family
   (tau p, reported log-det tld p) that reports its own log-det correctly: the reported log-det is
   ln |det J| for every matrix J whose entries on and above the diagonal are the partial derivatives
   of transform at x -- and such entries always exist (second part: the hypothesis is never vacuous).
   _partial: the entries of J BELOW the diagonal are not required to be the partial derivatives
   (their existence depends on the smoothness of the conditioner); they do not enter det J. *)
Theorem C02_maf_ldj_partial : forall (P : Type) (tau tld : P -> R -> R) (pvalid : P -> Prop),
  (forall p v, pvalid p -> is_ldj (tau p) v (tld p v)) ->
  forall g : list R -> nat -> P,
  (forall x x' i, length x = length x' -> (forall j, (j < i)%nat -> nth j x 0 = nth j x' 0) -> g x i = g x' i) ->
  (forall x i, pvalid (g x i)) ->
  forall x : list R,
  (forall J : nat -> nat -> R,
     (forall i j, (i <= j)%nat -> (j < length x)%nat -> partial_at (maf_fwd P tau g) x i j (J i j)) ->
     maf_ld P tld g x = ln (Rabs (detF (length x) J)) /\ detF (length x) J <> 0) /\
  (exists J : nat -> nat -> R,
     forall i j, (i <= j)%nat -> (j < length x)%nat -> partial_at (maf_fwd P tau g) x i j (J i j)).
Proof. exact c02_maf_ldj_partial. Qed.
Print Assumptions C02_maf_ldj_partial.
(* Coupling with an arbitrary conditioner of x[:d] *)
Theorem C02_coupling_ldj_partial : forall (P : Type) (tau tld : P -> R -> R) (pvalid : P -> Prop),
  (forall p v, pvalid p -> is_ldj (tau p) v (tld p v)) ->
  forall g : list R -> nat -> P, (forall xc i, pvalid (g xc i)) ->
  forall (d : nat) (x : list R) (J : nat -> nat -> R), (d <= length x)%nat ->
  (forall i j, (i <= j)%nat -> (j < length x)%nat -> partial_at (coupling_fwd P tau g d) x i j (J i j)) ->
  coupling_ld P tld g d x = ln (Rabs (detF (length x) J)) /\ detF (length x) J <> 0.
Proof. exact c02_coupling_ldj_partial. Qed.
Print Assumptions C02_coupling_ldj_partial.

(* Planar: the matrix determinant lemma det (I + u v^T) = 1 + v.u, and with it: the entrywise
   Jacobian of transform is (delta_ij + u_i psi_j) with the code's psi, and the reported log-det is
   ln |det| of it -- tanh activation at every x; leaky_relu (slope s > 0) away from its kink.
   The determinant is 1 + u.psi; its positivity is C02_planar_det_pos below. *)
Theorem C02_planar :
  (forall (n : nat) (u v : nat -> R),
     detF n (fun i j => (if Nat.eqb i j then 1 else 0) + u i * v j)
     = 1 + fold_right Rplus 0 (map (fun i => v i * u i) (seq 0 n))) /\
  (forall (w u0 : list R) (b : R) (x : list R), let n := length w in
     length u0 = n -> length x = n ->
     let u := planar_u ROps None w u0 in
     let act := planar_act ROps None (dot ROps x w + b) in
     let psi := vscale ROps (1 - act * act) w in
     let J := fun i j => (if Nat.eqb i j then 1 else 0) + nth i u 0 * nth j psi 0 in
     (forall i j, (i < n)%nat -> (j < n)%nat ->
        is_derive (fun t => nth i (planar_fwd ROps None w u0 b (upd x j t)) 0) (nth j x 0) (J i j)) /\
     planar_ld_fwd ROps None w u0 b x = ln (Rabs (detF n J)) /\ detF n J = 1 + dot ROps u psi) /\
  (forall (s : R) (w u0 : list R) (b : R) (x : list R), let n := length w in
     length u0 = n -> length x = n -> 0 < s -> dot ROps x w + b <> 0 ->
     let u := planar_u ROps (Some s) w u0 in
     let act := planar_act ROps (Some s) (dot ROps x w + b) in
     let psi := vscale ROps (if Rltb act 0 then s else 1) w in
     let J := fun i j => (if Nat.eqb i j then 1 else 0) + nth i u 0 * nth j psi 0 in
     (forall i j, (i < n)%nat -> (j < n)%nat ->
        is_derive (fun t => nth i (planar_fwd ROps (Some s) w u0 b (upd x j t)) 0) (nth j x 0) (J i j)) /\
     planar_ld_fwd ROps (Some s) w u0 b x = ln (Rabs (detF n J)) /\ detF n J = 1 + dot ROps u psi).
Proof. exact c02_planar. Qed.
Print Assumptions C02_planar.

(* the determinant 1 + u.psi is POSITIVE (so the log is not a totalised ln 0) for the tanh activation
   and for leaky_relu with ANY negative slope s > 0, whenever w <> 0 (w.w > 0): this is what
   get_act_scale ensures -- w.u_hat = m(w.u) > -1 for tanh, m(w.u) / max(1, s) > -1/max(1, s) for
   leaky relu, m(t) = -1 + log(1 + softplus t).  (Before fix D7 the division by max(1, s) was missing
   and the statement failed for s > 1: C01_planar_slope_gt1_refuted on planar_u_old.) *)
Theorem C02_planar_det_pos : forall (ns : option R) (w u0 : list R) (b : R) (x : list R),
  length u0 = length w -> 0 < dot ROps w w ->
  match ns with Some s => 0 < s | None => True end ->
  let u := planar_u ROps ns w u0 in
  let act := planar_act ROps ns (dot ROps x w + b) in
  let psi := match ns with
             | Some s => vscale ROps (if Rltb act 0 then s else 1) w
             | None => vscale ROps (1 - act * act) w end in
  0 < 1 + dot ROps u psi.
Proof. exact c02_planar_det_pos. Qed.
Print Assumptions C02_planar_det_pos.

(* Concatenate / Stack / Vmap: the children act on disjoint slices, the Jacobian is block diagonal
   (blockF), and the python sum of the children's log-dets is ln |det| of it (MathComp det_ublock).
   Two blocks; any number by folding. *)
Theorem C02_block_diagonal :
  (forall (n1 : nat) (A B : nat -> nat -> R) (i j : nat),
     blockF n1 A B i j = if (i <? n1)%nat then (if (j <? n1)%nat then A i j else 0)
                         else (if (j <? n1)%nat then 0 else B (i - n1)%nat (j - n1)%nat)) /\
  (forall (n1 n2 : nat) (A B : nat -> nat -> R), detF (n1 + n2) (blockF n1 A B) = detF n1 A * detF n2 B) /\
  (forall (n1 n2 : nat) (A B : nat -> nat -> R) (l1 l2 : R),
     l1 = ln (Rabs (detF n1 A)) -> detF n1 A <> 0 -> l2 = ln (Rabs (detF n2 B)) -> detF n2 B <> 0 ->
     l1 + l2 = ln (Rabs (detF (n1 + n2) (blockF n1 A B))) /\ detF (n1 + n2) (blockF n1 A B) <> 0).
Proof. exact c02_block_diagonal. Qed.
Print Assumptions C02_block_diagonal.

(* ====================================================================================== *)
(* 5. Compositions at rank >= 1.  CITED, NOT PROVED: the multivariate chain rule (the Jacobian  *)
(*    of a composite is the product of the layers' Jacobians at the running values) -- it is  *)
(*    the explicit hypothesis [Hchain].  Proved: the sum a Chain reports is ln |det| of that   *)
(*    product (det_mulmx), for any number of layers.                                          *)
(*    Full statement (not proved): for JC the entrywise Jacobian of the composite map,        *)
(*    snd (chain_fwd_ld ls x) = ln |det JC|.                                                  *)
(* ====================================================================================== *)
Theorem C02_compositional_partial :
  forall (n : nat) (Jac : layer (list R) -> list R -> nat -> nat -> R),
  (* jac_prod: J_n * ... * J_1 at the running values *)
  (forall l t x i k,
     jac_prod n Jac [] x i k = (if Nat.eqb i k then 1 else 0) /\
     jac_prod n Jac (l :: t) x i k =
       fold_right Rplus 0 (map (fun j => jac_prod n Jac t (l_fwd l x) i j * Jac l x j k) (seq 0 n))) /\
  (forall (ls : list (layer (list R))) (x : list R) (JC : nat -> nat -> R),
     List.Forall (fun l => forall x, l_dom l x ->
          l_ldf l x = ln (Rabs (detF n (Jac l x))) /\ detF n (Jac l x) <> 0) ls ->
     comp_dom ls x ->
     forall Hchain : (forall i j, (i < n)%nat -> (j < n)%nat -> JC i j = jac_prod n Jac ls x i j),
     snd (chain_fwd_ld ls x) = ln (Rabs (detF n JC)) /\ detF n JC <> 0).
Proof. exact c02_compositional_partial. Qed.
Print Assumptions C02_compositional_partial.

(* ====================================================================================== *)
(* Examples (non-vacuity)                                                                    *)
(* ====================================================================================== *)
(* a negative scale: log-det ln 2 *)
Example ex_affine_neg : is_ldj (affine_fwd ROps 3 (-2)) 5 (ln 2).
Proof.
  replace (ln 2) with (affine_ld ROps (-2)).
  - apply affine_ldj. lra.
  - rewrite affine_ld_spec. rewrite Rabs_left by lra. f_equal. lra.
Qed.
Example ex_leaky : forall x, is_ldj (leaky_fwd ROps 3 (leaky_grad ROps 3) (leaky_icpt ROps 3)) x
                                     (leaky_ld_fwd ROps 3 (leaky_grad ROps 3) x).
Proof. apply leaky_ldj. lra. Qed.

(* a valid spline with non-trivial parameters: knots -1 < 0 < 1 -> -1 < 1/2 < 1, derivatives 2, 1/3, 3 *)
Definition ex_xp : list R := [-1; 0; 1].
Definition ex_yp : list R := [-1; /2; 1].
Definition ex_dv : list R := [2; /3; 3].
Example ex_rqs_valid : rqs_valid ex_xp ex_yp ex_dv (-1) 1.
Proof.
  constructor; unfold ex_xp, ex_yp, ex_dv; cbn [length nth last]; try reflexivity; try lia.
  - repeat constructor; lra.
  - repeat constructor; lra.
  - repeat constructor; lra.
Qed.
(* at the interior knot 0 the map is differentiable and the derivative is the knot parameter 1/3 *)
Example ex_rqs_knot : is_derive (rqs_fwd ROps ex_xp ex_yp ex_dv (-1) 1) 0 (/3).
Proof.
  pose proof (rqs_deriv_at_knot _ _ _ _ _ ex_rqs_valid 1%Z ltac:(cbn; lia)) as E.
  change (X ex_xp 1) with 0 in E. change (Dv ex_dv 1) with (/3) in E. rewrite <- E.
  apply (rqs_deriv_inside _ _ _ _ _ ex_rqs_valid). lra.
Qed.
(* ... and at the left end it has a kink (d_0 = 2 <> 1); the code reports the inner derivative 2 *)
Example ex_rqs_kink : rqs_deriv ROps ex_xp ex_yp ex_dv (-1) 1 (-1) = 2 /\
  ~ exists d, is_derive (rqs_fwd ROps ex_xp ex_yp ex_dv (-1) 1) (-1) d.
Proof.
  split.
  - apply (rqs_end_lo _ _ _ _ _ ex_rqs_valid).
  - apply (rqs_end_lo_kink _ _ _ _ _ ex_rqs_valid). change (Dv ex_dv 0) with 2. lra.
Qed.

(* a rank-0 chain  Affine(1,-2) ; Tanh ; Exp  and a nested Invert/Chain: all hypotheses hold *)
Example ex_chain : forall x,
  let ls := [affine_layer 1 (-2); tanh_layer; exp_layer] in
  is_ldj (fun t => fst (chain_fwd_ld ls t)) x (snd (chain_fwd_ld ls x)).
Proof.
  intros x ls. apply chain_ldj_rank0.
  - apply Forall_cons; [apply affine_layer_ldj; lra|].
    apply Forall_cons; [apply tanh_layer_ldj|]. apply Forall_cons; [apply exp_layer_ldj | apply Forall_nil].
  - unfold ls. cbn [comp_dom l_dom affine_layer tanh_layer exp_layer]. unfold Rall. tauto.
Qed.
Example ex_chain_inverse_law :
  layer_ok (invert_layer (chain_layer [affine_layer 1 (-2); invert_layer (leaky_layer 3); exp_layer])).
Proof.
  apply invert_layer_ok, chain_layer_ok.
  apply Forall_cons; [apply affine_layer_ok; lra|].
  apply Forall_cons; [apply invert_layer_ok, leaky_layer_ok; lra|].
  apply Forall_cons; [apply exp_layer_ok | apply Forall_nil].
Qed.

(* a lower-triangular matrix with a negative diagonal entry *)
Example ex_tri : tri_ld ROps [[2; 0]; [5; -3]] = ln (Rabs (detF 2 (mentry [[2; 0]; [5; -3]]))).
Proof.
  apply tri_ld_det.
  - left. intros i j Hij Hj. cbn [length] in Hj. assert (i = 0%nat /\ j = 1%nat) as [-> ->] by lia. reflexivity.
  - intros i Hi. cbn [length] in Hi. destruct i as [|[|i]]; [| |lia]; unfold mentry; cbn [nth]; lra.
Qed.

(* a MAF with an affine transformer whose parameters (loc, scale) = (x_{i-1}, 2) depend on the
   previous coordinate: the section hypotheses are satisfiable *)
Example ex_maf : forall x : list R,
  let tau := fun p : R * R => affine_fwd ROps (fst p) (snd p) in
  let tld := fun (p : R * R) (_ : R) => affine_ld ROps (snd p) in
  let g := fun (x : list R) (i : nat) => (match i with O => 0 | S k => nth k x 0 end, 2) in
  exists J, (forall i j, (i <= j)%nat -> (j < length x)%nat -> partial_at (maf_fwd _ tau g) x i j (J i j)) /\
            maf_ld _ tld g x = ln (Rabs (detF (length x) J)).
Proof.
  intros x tau tld g.
  assert (H1 : forall (p : R * R) v, snd p <> 0 -> is_ldj (tau p) v (tld p v)) by (intros p v Hp; apply affine_ldj, Hp).
  assert (H2 : forall x x' i, length x = length x' -> (forall j, (j < i)%nat -> nth j x 0 = nth j x' 0) -> g x i = g x' i).
  { intros a a' i _ Hj. unfold g. destruct i as [|k]; [reflexivity|]. f_equal. apply Hj. lia. }
  assert (H3 : forall x i, snd (g x i) <> 0) by (intros; cbn [g snd]; lra).
  destruct (maf_upper_exists _ tau tld (fun p => snd p <> 0) H1 g H2 H3 x) as [J HJ].
  exists J. split; [exact HJ|]. apply (maf_ldj _ tau tld (fun p => snd p <> 0) H1 g H2 H3 x J HJ).
Qed.

(* ====================================================================================== *)
(* detF is MathComp's determinant (this import comes last: it changes notations)             *)
(* ====================================================================================== *)
From mathcomp Require Import all_ssreflect ssralg matrix.
Theorem C02_detF_is_det : forall (n : nat) (F : nat -> nat -> R),
  detF n F = (\det (\matrix_(i < n, j < n) F i j))%R.
Proof. exact detF_is_det. Qed.
Print Assumptions C02_detF_is_det.
