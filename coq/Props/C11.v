(* C11 -- Constrained parameters stay valid for every unconstrained value.
   Only the property theorems (each closed by [exact]) and their [Print Assumptions].
   Model: Model/Constr.v (generic over NumOps; here instantiated at the reals, ROps).
   Lemmas: Proofs/ConstrP.v.

   Every theorem below quantifies over ALL real raw values (no box) and all vector lengths.
   What is NOT covered by the R-model (label: partial, floats): in binary32/64 softplus(raw) underflows
   to 0 for very negative raw, exp(raw_i - max raw) underflows and lo + scale*cumsum absorbs tiny widths;
   that is why the property's quantifier carries the box |raw| <= 50.  The box is exercised on the real
   code by the correspondence check (harness/c11.py), in float64 and float32.

   Hypotheses forced by the proofs, each replayed on the real code by the check:
   w <> 0 (Planar), row <> 0 (WeightNormalization), 0 < y (constructor arguments), lo < hi and
   raw <> [] (spline), md < 1, rate <> 0. *)
From Coq Require Import Reals List ZArith Bool Sorted Permutation Lra Lia.
From FJ Require Import Model.Num Model.Constr Proofs.RNum Proofs.ConstrP.
Import ListNotations.
Open Scope R_scope.

(* ---- softplus-positive parameters (Affine/Scale scale, TriangularAffine diagonal, StudentT df,
        distribution scales, WeightNormalization scale): positive for EVERY raw value; SoftPlus.inverse is
        applied inside its domain for 0 < y, and the constructor reproduces its argument ---- *)
Theorem C11_positive_reparam :
  (forall x, 0 < softplus ROps x) /\
  (forall raw, Forall (fun s => 0 < s) (pos_unwrap ROps raw)) /\
  (forall y, 0 < y -> 0 < - (exp (- y) - 1) /\ softplus ROps (softplus_inv ROps y) = y) /\
  (forall v, Forall (fun y => 0 < y) v -> pos_unwrap ROps (pos_init ROps v) = v).
Proof. exact positive_reparam_all. Qed.
Print Assumptions C11_positive_reparam.

(* ---- constructor checks (true = raises): accepted <-> inside the constraint; accepted => reproduced.
        (rate: the guard r <> 0 is explicit because 1/0 = 0 in Coq) ---- *)
Theorem C11_ctor_rejects :
  (forall v, pos_rejects ROps v = false <-> Forall (fun y => 0 < y) v) /\
  (forall v, pos_rejects ROps v = false -> pos_unwrap ROps (pos_init ROps v) = v) /\
  (forall v, df_rejects ROps v = false <-> Forall (fun y => 0 < y) v) /\
  (forall w, mix_rejects ROps w = false <-> Forall (fun y => 0 < y) w) /\
  (forall lo hi, uniform_rejects ROps lo hi = false <-> lo < hi) /\
  (forall L, tri_rejects ROps L = false <-> diag_positive L) /\
  (forall r, r <> 0 -> (rate_rejects ROps r = false <-> 0 < r)) /\
  (forall ms, min_scale_rejects ROps ms = false <-> ms < 1) /\
  (forall s, planar_rejects ROps s = false <-> 0 < s) /\
  (forall adj, knots_rejects ROps adj = false <-> 0 <= adj).
Proof. exact ctor_rejects_all. Qed.
Print Assumptions C11_ctor_rejects.

(* Permute accepts exactly the permutations of 0 .. size-1 *)
Theorem C11_perm_rejects_spec : forall p, perm_rejects p = false <-> Permutation p (rangeZ (length p)).
Proof. exact perm_rejects_spec. Qed.
Print Assumptions C11_perm_rejects_spec.

(* ---- Uniform bounds and Exponential rate: reproduced by the constructor, valid for every raw value ---- *)
Theorem C11_uniform_rate :
  (forall lo hi, lo < hi -> uniform_maxval ROps lo (uniform_init ROps lo hi) = hi) /\
  (forall lo raw, lo < uniform_maxval ROps lo raw) /\
  (forall r, 0 < r -> rate_of ROps (rate_init ROps r) = r) /\
  (forall raw, 0 < rate_of ROps raw).
Proof. exact uniform_rate_all. Qed.
Print Assumptions C11_uniform_rate.

(* ---- flows._affine_with_min_scale: scale > min_scale for every raw value; initial scale 1 ---- *)
Theorem C11_min_scale :
  (forall ms x, ms < min_scale_unwrap ROps ms x) /\
  (forall ms, ms < 1 -> min_scale_unwrap ROps ms (min_scale_init ROps ms) = 1).
Proof. exact min_scale_all. Qed.
Print Assumptions C11_min_scale.

(* ---- spline: knots strictly increasing from lo to hi, for every raw vector of any length >= 1,
        every lo < hi, every admissible softmax_adjust ---- *)
Theorem C11_knots_strictly_increasing : forall lo hi adj raw, lo < hi -> 0 <= adj -> raw <> [] ->
  StronglySorted Rlt (knots ROps lo hi adj raw) /\
  hd 0 (knots ROps lo hi adj raw) = lo /\ last (knots ROps lo hi adj raw) 0 = hi /\
  length (knots ROps lo hi adj raw) = (length raw + 2)%nat.
Proof. exact knots_valid. Qed.
Print Assumptions C11_knots_strictly_increasing.

(* ---- spline derivatives: > min_derivative for every raw value; initial derivative 1 when md < 1 ---- *)
Theorem C11_derivatives_floor :
  (forall md raw, Forall (fun d => md < d) (derivs ROps md raw) /\ length (derivs ROps md raw) = length raw) /\
  (forall md, md < 1 -> 0 < exp (1 - md) - 1 /\ derivs ROps md [deriv_init ROps md] = [1]).
Proof. exact derivatives_all. Qed.
Print Assumptions C11_derivatives_floor.

(* ---- planar (as repaired by fix e65a946): for every raw (w, u) with w <> 0, any dimension:
        tanh activation: w . u_hat > -1;  leaky relu with EVERY slope > 0 the constructor accepts:
        w . u_hat > -1/max(1, slope), and both denominators of the analytic inverse, 1 + w.(u_hat*1) and
        1 + w.(u_hat*slope), are positive ---- *)
Theorem C11_planar_invertible : forall w u, nonzero w -> length u = length w ->
  -1 < planar_wu ROps None w u /\
  (forall slope, 0 < slope ->
     - 1 / Rmax 1 slope < planar_wu ROps (Some slope) w u /\
     0 < planar_denom ROps slope 1 w u /\ 0 < planar_denom ROps slope slope w u).
Proof. exact planar_all. Qed.
Print Assumptions C11_planar_invertible.

(* The formula before the fix (constraint value not divided by max(1, slope)) does NOT give this for slopes > 1:
   witness slope 2, w = [1], u = [-5] (the old failing input; the check replays it on the current code). *)
Theorem C11_planar_slope_gt1_old_refuted : exists s w u,
  planar_rejects ROps s = false /\ nonzero w /\ length u = length w /\ planar_denom_old ROps s w u < 0.
Proof. exact planar_slope_gt1_old_refuted. Qed.
Print Assumptions C11_planar_slope_gt1_old_refuted.

(* ---- mixture weights: positive, summing to 1, for any raw logits and any number of components;
        construction from (unnormalised) positive weights gives w / sum w ---- *)
Theorem C11_mixture_weights_normalised :
  (forall raw, raw <> [] ->
     Forall (fun w => 0 < w) (mix_weights ROps raw) /\ sum ROps (mix_weights ROps raw) = 1 /\
     length (mix_weights ROps raw) = length raw /\ map exp (mix_logw ROps raw) = mix_weights ROps raw) /\
  (forall w, Forall (fun x => 0 < x) w -> w <> [] ->
     mix_weights ROps (mix_init ROps w) = map (fun x => x / sum ROps w) w).
Proof. exact mixture_all. Qed.
Print Assumptions C11_mixture_weights_normalised.

(* ---- WeightNormalization: every non-zero row has norm = its (softplus-positive) scale parameter;
        the constructor initialises that parameter to 1/||row|| (as coded) ---- *)
Theorem C11_weightnorm_row_norm :
  (forall s row, nonzero row -> 0 < s -> norm ROps (wn_row ROps s row) = s) /\
  (forall raw rows, length raw = length rows -> Forall nonzero rows ->
     map (norm ROps) (wn_unwrap ROps raw rows) = pos_unwrap ROps raw) /\
  (forall rows, Forall nonzero rows -> pos_unwrap ROps (wn_init ROps rows) = map (fun r => 1 / norm ROps r) rows).
Proof. exact weightnorm_all. Qed.
Print Assumptions C11_weightnorm_row_norm.

(* ---- TriangularAffine / MultivariateNormal: positive diagonal for every raw diagonal; constructor
        round trip entry by entry; covariance reproduced (L stands for linalg.cholesky(cov): assumed
        lower triangular with positive diagonal and L L^T = cov) ---- *)
Theorem C11_triangular_mvn :
  (forall lower raw arr i, (i < length raw)%nat -> 0 < tri_entry ROps lower (pos_unwrap ROps raw) arr i i) /\
  (forall lower L i j, diag_positive L -> (i < length L)%nat -> (j < length L)%nat ->
     tri_entry ROps lower (pos_unwrap ROps (tri_init ROps L)) L i j =
     if Nat.eqb i j then getm ROps L i j else if (if lower then Nat.ltb j i else Nat.ltb i j) then getm ROps L i j else 0) /\
  (forall L cov, square L -> diag_positive L -> lower_triangular L -> mmulT ROps L = cov ->
     mmulT ROps (tri_unwrap ROps true (tri_init ROps L) L) = cov).
Proof. exact triangular_all. Qed.
Print Assumptions C11_triangular_mvn.

(* ---- non-vacuity: concrete instances that meet the hypotheses ---- *)
Example C11_example_knots_hyps : (-2 < 3) /\ (0 <= 1 / 100) /\ [50; -50; 0; 7] <> [].
Proof. split; [lra|split; [lra|discriminate]]. Qed.
Example C11_example_knots_len : length (knots ROps (-2) 3 (1/100) [50; -50; 0; 7]) = 6%nat.
Proof. reflexivity. Qed.
Example C11_example_planar_hyps : nonzero [0; 3] /\ length [-5; 1] = length [0; 3].
Proof. split; [right; left; lra|reflexivity]. Qed.
Example C11_example_rows : Forall nonzero [[0; 2]; [1; 0]].
Proof. constructor; [right; left; lra|]. constructor; [left; lra|constructor]. Qed.
Example C11_example_perm : perm_rejects [2; 0; 1]%Z = false /\ perm_rejects [0; 1; 1]%Z = true /\
  perm_rejects [1; 2; 3]%Z = true /\ perm_rejects [] = false.
Proof. vm_compute. repeat split. Qed.
Example C11_example_chol : let L := [[2; 0]; [1; 3]] in
  square L /\ diag_positive L /\ lower_triangular L.
Proof.
  cbn zeta. split; [repeat constructor|]. split.
  - intros i Hi. cbn [length] in Hi. destruct i as [|[|i]]; cbn; try lra. lia.
  - intros i j Hi Hj Hij. cbn [length] in *. destruct i as [|[|i]], j as [|[|j]]; cbn; try reflexivity; lia.
Qed.
