(* C08 -- Combinators mean what their definitions say, for every shape and axis.
   Only the property theorems (each closed by [exact]) and their [Print Assumptions].
   Model: Model/Tensor.v, Model/Bij.v.  Lemmas: Proofs/TensorP.v, Proofs/BijP.v, Proofs/BijCor.v.
   [run] is the code-shaped semantics (entry checks at every node, array_split at cumulative indices,
   jnp.split + squeeze, expand_dims + concatenate, vmap slices, x.at[idx].set, numpy axis normalisation);
   [den] is the definition-shaped one (axis mod rank, slices at offsets, take / stack, composition, indexed
   update).  Every statement is for an arbitrary carrier, tree depth and width, tensor rank and axis. *)
From Coq Require Import List ZArith Bool.
From FJ Require Import Model.Num Model.Tensor Model.Bij Proofs.TensorP Proofs.TensorGet Proofs.BijP Proofs.BijCor.
From FJ Require Proofs.MaskP.
Import ListNotations.

(* The main statement: on every well-constructed tree [sig_of b = Ok sg], every input of the declared shape
   and every admissible condition, the code computes exactly what the definitions say, and the log-det is
   a scalar.  (Hence also: such a call never raises.) *)
Theorem C08_run_is_den : forall (A : Type) (O : NumOps A) (b : bij A) d x c sg,
  sig_of b = Ok sg -> has_shape (fst sg) x = true -> cond_ok (snd sg) c ->
  run O b d x c = Ok (fst (den O b d x c), Sc (snd (den O b d x c))).
Proof. exact @run_is_den. Qed.
Print Assumptions C08_run_is_den.

(* ... for each of the four public methods *)
Theorem C08_methods_are_den : forall (A : Type) (O : NumOps A) (b : bij A) m x c sg,
  sig_of b = Ok sg -> has_shape (fst sg) x = true -> cond_ok (snd sg) c ->
  run_meth O b m x c =
    Ok (fst (den O b (meth_dir m) x c), if meth_ld m then Some (Sc (snd (den O b (meth_dir m) x c))) else None).
Proof. exact @run_meth_is_den. Qed.
Print Assumptions C08_methods_are_den.

(* Declared shape and cond_shape agree with what the methods accept and return: a call succeeds only on
   exactly the declared shapes, and then returns the declared shape, a scalar log-det and the defined value. *)
Theorem C08_shape_sound : forall (A : Type) (O : NumOps A) (b : bij A) d x c y l,
  run O b d x c = Ok (y, l) ->
  exists sg, sig_of b = Ok sg /\ has_shape (fst sg) x = true /\ cond_ok (snd sg) c /\
             has_shape (fst sg) y = true /\ y = fst (den O b d x c) /\ l = Sc (snd (den O b d x c)).
Proof. exact @shape_sound. Qed.
Print Assumptions C08_shape_sound.

Theorem C08_den_has_declared_shape : forall (A : Type) (O : NumOps A) (b : bij A) d x c sg,
  sig_of b = Ok sg -> has_shape (fst sg) x = true -> cond_ok (snd sg) c ->
  has_shape (fst sg) (fst (den O b d x c)) = true.
Proof. exact @den_shape. Qed.
Print Assumptions C08_den_has_declared_shape.

(* Stack declares jnp.stack's shape: the new axis at [axis mod (rank+1)], negative axes included;
   Concatenate sums the sizes along [axis mod rank]; Vmap inserts the axis size into the cond_shape at the
   position jax.vmap maps. *)
Theorem C08_stack_declared_shape : forall (A : Type) axis (bs : list (bij A)) sg,
  sig_of (Stack axis bs) = Ok sg ->
  exists sigs s0, mapr sig_of bs = Ok sigs /\ (forall a, In a sigs -> fst a = s0) /\ sigs <> [] /\
    (- Z.of_nat (length s0) - 1 <= axis <= Z.of_nat (length s0))%Z /\
    let k := Z.to_nat (axis mod (Z.of_nat (length s0) + 1)) in
    fst sg = firstn k s0 ++ length bs :: skipn k s0.
Proof. exact @stack_declared_shape. Qed.
Print Assumptions C08_stack_declared_shape.

Theorem C08_concat_declared_shape : forall (A : Type) axis (bs : list (bij A)) sg,
  sig_of (Concat axis bs) = Ok sg ->
  exists sigs pre post sizes, mapr sig_of bs = Ok sigs /\ sigs <> [] /\
    Forall2 (fun a n => fst a = pre ++ n :: post) sigs sizes /\
    (- Z.of_nat (S (length pre + length post)) <= axis < Z.of_nat (S (length pre + length post)))%Z /\
    length pre = Z.to_nat (axis mod Z.of_nat (S (length pre + length post))) /\
    fst sg = pre ++ sumn sizes :: post.
Proof. exact @concat_declared_shape. Qed.
Print Assumptions C08_concat_declared_shape.

Theorem C08_vmap_declared_cond_shape : forall n s a cs,
  vmap_cshape n (Some s) (Some a) = Ok cs ->
  (- Z.of_nat (length s) - 1 <= a <= Z.of_nat (length s))%Z /\
  let k := Z.to_nat (a mod (Z.of_nat (length s) + 1)) in cs = Some (firstn k s ++ n :: skipn k s).
Proof. exact vmap_declared_cshape. Qed.
Print Assumptions C08_vmap_declared_cond_shape.

(* The formulas before the repairs ed3b7c8 / 88c3ee9 (findings D3, D4) are wrong on a negative axis ... *)
Theorem C08_stack_shape_old_refuted : exists (axis : Z) (s0 : shape) (n : nat),
  (- Z.of_nat (length s0) - 1 <= axis <= Z.of_nat (length s0))%Z /\
  exists k s, stack_info axis (repeat s0 n) = Ok (k, s) /\ stack_shape_old axis s0 n <> s.
Proof. exact stack_shape_old_refuted. Qed.
Print Assumptions C08_stack_shape_old_refuted.

Theorem C08_vmap_cond_axis_old_refuted : exists (n : nat) (s : shape) (a : Z),
  (- Z.of_nat (length s) - 1 <= a <= Z.of_nat (length s))%Z /\
  exists cs, vmap_cshape n (Some s) (Some a) = Ok (Some cs) /\ vmap_cshape_old n s a <> cs.
Proof. exact vmap_cshape_old_refuted. Qed.
Print Assumptions C08_vmap_cond_axis_old_refuted.

(* ... and right on a non-negative one (why the suite never noticed). *)
Theorem C08_stack_shape_old_nonneg : forall axis s0 n k s, (0 <= axis)%Z ->
  stack_info axis (repeat s0 (S n)) = Ok (k, s) -> stack_shape_old axis s0 (S n) = s.
Proof. exact stack_shape_old_nonneg. Qed.
Print Assumptions C08_stack_shape_old_nonneg.

(* Partial changes only the indexed entries (frame property), for every index kind, any rank. *)
Theorem C08_partial_frame : forall (A : Type) (O : NumOps A) ix s (b : bij A) d x c y l rs I,
  run O (Partial ix s b) d x c = Ok (y, l) -> resolve_idx ix s = Some rs -> ~ hit rs I -> tget y I = tget x I.
Proof. exact @partial_frame. Qed.
Print Assumptions C08_partial_frame.

(* ... and the indexed entries are the child's image of the indexed entries (positions in range and distinct). *)
Theorem C08_partial_indexed_entries : forall (A : Type) (O : NumOps A) ix s (b : bij A) d x c sg rs,
  sig_of (Partial ix s b) = Ok sg -> has_shape (fst sg) x = true -> cond_ok (snd sg) c ->
  resolve_idx ix s = Some rs -> rs_ok rs s ->
  tgather rs (fst (den O (Partial ix s b) d x c)) = fst (den O b d (tgather rs x) c).
Proof. exact @partial_hit. Qed.
Print Assumptions C08_partial_indexed_entries.

Theorem C08_scatter_frame : forall (A : Type) rs (t y : tensor A) I, ~ hit rs I -> tget (tscatter rs t y) I = tget t I.
Proof. exact @tscatter_frame. Qed.
Print Assumptions C08_scatter_frame.

(* Invert swaps the two directions -- for all inputs, malformed ones included. *)
Theorem C08_invert_swaps : forall (A : Type) (O : NumOps A) (b : bij A) d x c,
  run O (Invert b) d x c = run O b (flipd d) x c.
Proof. exact @invert_swaps. Qed.
Print Assumptions C08_invert_swaps.

(* Scan equals the Chain of its unstacked layers. *)
Theorem C08_scan_is_chain : forall (A : Type) (O : NumOps A) (bs : list (bij A)) d x c sg,
  sig_of (Scan bs) = Ok sg -> run O (Scan bs) d x c = run O (Chain bs) d x c.
Proof. exact @scan_is_chain. Qed.
Print Assumptions C08_scan_is_chain.

(* Reshape only re-presents: the C-order entries of input, condition and output are those of the child's. *)
Theorem C08_reshape_represents : forall (A : Type) (O : NumOps A) os cs (b : bij A) d x c sg,
  sig_of (Reshape os cs b) = Ok sg -> has_shape (fst sg) x = true -> cond_ok (snd sg) c ->
  exists c', flatten (fst (den O (Reshape os cs b) d x c)) = flatten (fst (den O b d (treshape (shape_d b) x) c')) /\
             flatten (treshape (shape_d b) x) = flatten x /\
             match c, c' with Some cv, Some cv' => flatten cv' = flatten cv | None, None => True | _, _ => False end.
Proof. exact @reshape_represents. Qed.
Print Assumptions C08_reshape_represents.

(* Chain is sequential composition and the log-dets add; slicing and merge_chains never change the function.
   The laws of addition are hypotheses (they hold of the reals; of float64 on the exactly representable values). *)
Theorem C08_chain_is_composition : forall (A : Type) (O : NumOps A),
  (forall a, n_add O a (zero O) = a) ->
  (forall a1 a2 a3 : A, n_add O a1 (n_add O a2 a3) = n_add O (n_add O a1 a2) a3) ->
  forall (bs1 bs2 : list (bij A)) x c,
  den O (Chain (bs1 ++ bs2)) Fwd x c =
  let r1 := den O (Chain bs1) Fwd x c in
  let r2 := den O (Chain bs2) Fwd (fst r1) c in
  (fst r2, n_add O (snd r1) (snd r2)).
Proof. exact @chain_app_fwd. Qed.
Print Assumptions C08_chain_is_composition.

Theorem C08_chain_inverse_is_reverse_composition : forall (A : Type) (O : NumOps A),
  (forall a, n_add O a (zero O) = a) ->
  (forall a1 a2 a3 : A, n_add O a1 (n_add O a2 a3) = n_add O (n_add O a1 a2) a3) ->
  forall (bs1 bs2 : list (bij A)) x c,
  den O (Chain (bs1 ++ bs2)) Inv x c =
  let r2 := den O (Chain bs2) Inv x c in
  let r1 := den O (Chain bs1) Inv (fst r2) c in
  (fst r1, n_add O (snd r2) (snd r1)).
Proof. exact @chain_app_inv. Qed.
Print Assumptions C08_chain_inverse_is_reverse_composition.

Theorem C08_chain_slice_same : forall (A : Type) (O : NumOps A),
  (forall a, n_add O a (zero O) = a) ->
  (forall a1 a2 a3 : A, n_add O a1 (n_add O a2 a3) = n_add O (n_add O a1 a2) a3) ->
  forall (bs : list (bij A)) i x c,
  den O (Chain bs) Fwd x c =
  let r1 := den O (Chain (firstn i bs)) Fwd x c in
  let r2 := den O (Chain (skipn i bs)) Fwd (fst r1) c in
  (fst r2, n_add O (snd r1) (snd r2)).
Proof. exact @chain_slice_fwd. Qed.
Print Assumptions C08_chain_slice_same.

(* merge_chains (any nesting depth) never changes the function: it constructs whenever the chain does, declares the
   same shapes, and every method returns the same result on EVERY input (malformed ones are rejected alike). *)
Theorem C08_merge_chains_same : forall (A : Type) (O : NumOps A),
  (forall a, n_add O a (zero O) = a) ->
  (forall a1 a2 a3 : A, n_add O a1 (n_add O a2 a3) = n_add O (n_add O a1 a2) a3) ->
  forall (bs : list (bij A)) sg d x c, sig_of (Chain bs) = Ok sg ->
  run O (merge_chains bs) d x c = run O (Chain bs) d x c.
Proof. exact @merge_chains_run. Qed.
Print Assumptions C08_merge_chains_same.

Theorem C08_merge_chains_same_shapes : forall (A : Type) (bs : list (bij A)) sg,
  sig_of (Chain bs) = Ok sg -> sig_of (merge_chains bs) = Ok sg.
Proof. exact @merge_chains_sig. Qed.
Print Assumptions C08_merge_chains_same_shapes.

(* merge_chains terminates flat: no Chain is left among the children (any nesting depth). *)
Theorem C08_merge_chains_flat : forall (A : Type) (bs : list (bij A)),
  exists l, merge_chains bs = Chain l /\ existsb is_chain l = false.
Proof. exact @merge_chains_flat. Qed.
Print Assumptions C08_merge_chains_flat.

(* The operations [den] is written with ARE jnp.take / slicing / jnp.concatenate / jnp.stack: entry by entry,
   for tensors of any rank and any axis position [length pre]. *)
Theorem C08_take_pointwise : forall (A : Type) pre n post (t : tensor A) i I1 I2,
  has_shape (pre ++ n :: post) t = true -> length I1 = length pre ->
  tget (tindex (length pre) i t) (I1 ++ I2) = tget t (I1 ++ i :: I2).
Proof. exact @tget_tindex. Qed.
Print Assumptions C08_take_pointwise.

Theorem C08_slice_pointwise : forall (A : Type) pre n post (t : tensor A) a b j I1 I2,
  has_shape (pre ++ n :: post) t = true -> length I1 = length pre ->
  tget (tslice (length pre) a b t) (I1 ++ j :: I2) = if j <? b - a then tget t (I1 ++ (a + j) :: I2) else None.
Proof. exact @tget_tslice. Qed.
Print Assumptions C08_slice_pointwise.

Theorem C08_concatenate_pointwise : forall (A : Type) pre n1 n2 post (t1 t2 t : tensor A) j I1 I2,
  has_shape (pre ++ n1 :: post) t1 = true -> has_shape (pre ++ n2 :: post) t2 = true ->
  tcat2 (length pre) t1 t2 = Some t -> length I1 = length pre ->
  tget t (I1 ++ j :: I2) = if j <? n1 then tget t1 (I1 ++ j :: I2) else tget t2 (I1 ++ (j - n1) :: I2).
Proof. exact @tget_tcat2. Qed.
Print Assumptions C08_concatenate_pointwise.

Theorem C08_stack_pointwise : forall (A : Type) pre post (ts : list (tensor A)) t j I1 I2,
  Forall (fun u => has_shape (pre ++ post) u = true) ts -> tstack (length pre) ts = Some t ->
  length I1 = length pre -> j < length ts ->
  tget t (I1 ++ j :: I2) = tget (nth j ts dflt) (I1 ++ I2).
Proof. exact @tget_tstack. Qed.
Print Assumptions C08_stack_pointwise.

(* numpy.array_split at the cumulative sizes yields the slices (offset_i, offset_i + size_i). *)
Theorem C08_array_split_is_slices : forall (A : Type) k (sizes : list nat) (t : tensor A), sizes <> [] ->
  array_split k (sumn sizes) (accumulate (removelast sizes)) t =
  map (fun p => tslice k (fst p) (fst p + snd p) t) (combine (offsets sizes) sizes).
Proof. exact @array_split_offsets. Qed.
Print Assumptions C08_array_split_is_slices.

(* Non-vacuity: concrete trees with negative axes meet the hypotheses and compute non-trivial values. *)
Example C08_example_stack_neg_axis :
  sig_of (Stack (-1) [Leaf (LLoc (zt [2; 3] [1; 2; 3; 4; 5; 6]%Z)); Leaf (LFlip [2; 3])]) = Ok ([2; 3; 2], None) /\
  run ZOps (Stack (-1) [Leaf (LLoc (zt [2] [10; 20]%Z)); Leaf (LFlip [2])]) Fwd (zt [2; 2] [1; 2; 3; 4]%Z) None
    = Ok (zt [2; 2] [11; 4; 23; 2]%Z, Sc 0%Z).
Proof. vm_compute. split; reflexivity. Qed.
Example C08_example_vmap_cond_axis :
  sig_of (Vmap 3 false (Some (-1)%Z) [Leaf (LAddCond [] (zt [2] [1; 10]%Z))]) = Ok ([3], Some [2; 3]) /\
  run ZOps (Vmap 3 false (Some (-1)%Z) [Leaf (LAddCond [] (zt [2] [1; 10]%Z))]) Fwd (zt [3] [0; 0; 0]%Z)
      (Some (zt [2; 3] [1; 2; 3; 4; 5; 6]%Z)) = Ok (zt [3] [41; 52; 63]%Z, Sc 0%Z).
Proof. vm_compute. split; reflexivity. Qed.
(* Partial with a boolean mask (defect D14): a mask selector means exactly the integer-array selector of its True positions
   (np.nonzero) -- the same resolved positions and kept axis, wherever it stands in the index tuple; a mask of the wrong
   length is rejected; the positions are strictly increasing (no element twice, data order kept).  Storing the integer
   indices instead of the mask therefore changes no method of Partial. *)
Theorem C08_bool_mask_is_nonzero_indices : forall (pre post : list sel) (m : list bool) (s : shape),
  nth_error s (length pre) = Some (length m) ->
  resolve_idx (pre ++ SMask m :: post) s = resolve_idx (pre ++ SArr (mask_positions m) :: post) s.
Proof. exact MaskP.mask_is_nonzero_indices_tuple. Qed.
Print Assumptions C08_bool_mask_is_nonzero_indices.

Theorem C08_bool_mask_wrong_length_rejected : forall (n : nat) (m : list bool),
  length m <> n -> resolve_sel n (SMask m) = None.
Proof. exact MaskP.mask_wrong_length_rejected. Qed.
Print Assumptions C08_bool_mask_wrong_length_rejected.

Theorem C08_bool_mask_positions_increasing : forall m : list bool, Sorted.StronglySorted Z.lt (mask_positions m).
Proof. exact MaskP.mask_positions_increasing. Qed.
Print Assumptions C08_bool_mask_positions_increasing.

Example C08_example_concat_partial :
  run ZOps (Concat (-1) [Leaf (LLoc (zt [1; 1] [10]%Z));
                         Partial [SSlice None None None; SSlice None None (Some (-1)%Z)] [1; 2] (Leaf (LLoc (zt [1; 2] [100; 200]%Z)))])
      Inv (zt [1; 3] [1; 2; 3]%Z) None = Ok (zt [1; 3] [-9; -198; -97]%Z, Sc 0%Z).
Proof. vm_compute. reflexivity. Qed.
