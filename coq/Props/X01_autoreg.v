(* X01_autoreg -- the REAL MaskedAutoregressive and Coupling layers (conditioner MLP, ravelled-parameter constructor, unwrap,
   Vmap included) for the properties C01 (invertibility), C02 (log-determinants) and C09 (structure).
   Only property theorems (each closed by [exact]) with their [Print Assumptions], and non-vacuity [Example]s.
   Model: Model/AutoregNet.v (built from Model/Autoreg.v, Masks.v, Constr.v, Leaves.v); lemmas: Proofs/AutoregNetP.v.

   What is connected end to end here:
     C09 (Proofs/MasksP.v masked_mlp_dependence, the theorem behind C09_maf_params_autoregressive)
        ==> X01_masked_conditioner_is_autoregressive: the concrete masked conditioner satisfies, for ALL weights, biases,
            activations, dims, widths, depths, with or without condition, exactly the hypothesis of C01_maf_inv_fwd/_fwd_inv;
     C11 (Proofs/ConstrP.v knots_valid, derivs_floor, min_scale_floor, softplus_pos)
        ==> X01_transformer_valid_for_all_raw: scale = softplus(raw) [+ min_scale] > 0 and the spline's knots/derivatives
            satisfy rqs_valid for EVERY raw parameter block the conditioner can output;
     C01 (Proofs/AutoregInvP.v wiring, LeafInvP.v affine, RqsInvP.v spline)
        ==> X01_maf_net_inv_fwd/_fwd_inv, X01_coupling_net_inv_fwd/_fwd_inv: inverse(transform x) = x and
            transform(inverse y) = y for the concrete layers, no hypothesis left on the network beyond its output size;
     C02 (Proofs/DetPJac.v tri_jacobian_ldj = C02_tri_jacobian_ldj, LeafDerivP.v, RqsDerivP.v)
        ==> X01_maf_net_ldj_partial, X01_coupling_net_ldj_partial.
   Exact over R; float rounding is not modelled.  Hypotheses are explicit: no statement holds because x / 0 = 0,
   ln of a non-positive number = 0 or nth has a default (block lengths are proved, scale <> 0 is proved, every index is
   guarded).  Definitions used in the statements (Proofs/AutoregNetP.v):
     net_g zero add mul dim cd width depth np ws bs act inp
                     = reshape_rows dim (masked_mlp zero add mul ws bs (maf_masks dim cd width depth np) act inp)
                       (= maf_g of the model, X01_maf_g_is_net_g);  ws are the RAW weights, the masks are applied at evaluation
     spec_ok s       the transformer handed to the constructor is well formed: Affine: two leaves, min_scale >= 0;
                     spline: K >= 1, lo < hi, softmax_adjust >= 0, min_derivative >= 0, K + K + (K+2) leaves
     t_dom s v       Affine: True;  spline: v <> lo /\ v <> hi  (the map has a kink at the interval ends, C02_rqs_interval_ends)
     maf_block .. x i / coup_block .. x i   the raw parameter block of coordinate i at the point x
     is_ldj, partial_at, detF, DetPJac.upd   as in Props/C02.v (C02_vocabulary) *)
From Coq Require Import Reals List ZArith Bool Lia Lra.
From Coquelicot Require Import Coquelicot.
From FJ Require Import Model.Num Model.Leaves Model.Autoreg Model.Masks Model.Constr Model.AutoregNet
  Proofs.RNum Proofs.LeafDerivP Proofs.RqsInvP Proofs.DetP Proofs.DetPJac Proofs.AutoregNetP.
Import ListNotations.
Open Scope R_scope.

(* ============================ structure (any carrier with 0 * a = 0; no real numbers) ============================ *)

(* The hypothesis of C01_maf_inv_fwd / C01_maf_fwd_inv, discharged for the concrete masked conditioner: parameter block i
   of the network depends on the coordinates < i (and the condition) only -- ALL raw weights, biases, activations, every
   dim, cond_dim (None or Some), width, depth (0 included), parameter count np.  Only shape hypothesis: the last layer has
   dim * np outputs. *)
Theorem X01_masked_conditioner_is_autoregressive :
  forall (A : Type) (zero : A) (add mul : A -> A -> A) (dim : nat) (cd : option nat) (width depth np : nat)
         (ws : list (list (list A))) (bs : list (list A)) (act : A -> A),
  length (nth depth ws []) = (dim * np)%nat -> length (nth depth bs []) = (dim * np)%nat ->
  (forall a : A, mul zero a = zero) ->
  forall (d0 : A) (cond x x' : list A) (i : nat), length x = dim -> length x' = dim ->
  (forall j : nat, (j < i)%nat -> nth j x d0 = nth j x' d0) ->
  nth_error (net_g zero add mul dim cd width depth np ws bs act (x ++ cond)) i =
  nth_error (net_g zero add mul dim cd width depth np ws bs act (x' ++ cond)) i.
Proof. exact @masked_conditioner_autoregressive. Qed.
Print Assumptions X01_masked_conditioner_is_autoregressive.

(* ... hence, with NO hypothesis left about the conditioner: for the concrete masked network, all weights, and ANY scalar
   transformer family satisfying the leaf law on blocks of np parameters (domain D / codomain C), over ANY carrier with
   0 * a = 0: the dim-pass scan of inverse() undoes transform(), and conversely. *)
Theorem X01_maf_net_inv_fwd_any_transformer :
  forall (A : Type) (zero : A) (add mul : A -> A -> A) (dim : nat) (cd : option nat) (width depth np : nat)
         (ws : list (list (list A))) (bs : list (list A)) (act : A -> A),
  length (nth depth ws []) = (dim * np)%nat -> length (nth depth bs []) = (dim * np)%nat ->
  (forall a : A, mul zero a = zero) ->
  forall (tfwd tinv : list A -> A -> A) (D : A -> Prop) (d0 : A) (cond x : list A),
  (forall p v, length p = np -> D v -> tinv p (tfwd p v) = v) -> length x = dim -> List.Forall D x ->
  maf_inv d0 tinv (net_g zero add mul dim cd width depth np ws bs act) cond
    (Autoreg.maf_fwd tfwd (net_g zero add mul dim cd width depth np ws bs act) cond x) = x.
Proof. exact @maf_net_inv_fwd_any. Qed.
Print Assumptions X01_maf_net_inv_fwd_any_transformer.
Theorem X01_maf_net_fwd_inv_any_transformer :
  forall (A : Type) (zero : A) (add mul : A -> A -> A) (dim : nat) (cd : option nat) (width depth np : nat)
         (ws : list (list (list A))) (bs : list (list A)) (act : A -> A),
  length (nth depth ws []) = (dim * np)%nat -> length (nth depth bs []) = (dim * np)%nat ->
  (forall a : A, mul zero a = zero) ->
  forall (tfwd tinv : list A -> A -> A) (C : A -> Prop) (d0 : A) (cond y : list A),
  (forall p v, length p = np -> C v -> tfwd p (tinv p v) = v) -> length y = dim -> List.Forall C y ->
  Autoreg.maf_fwd tfwd (net_g zero add mul dim cd width depth np ws bs act) cond
    (maf_inv d0 tinv (net_g zero add mul dim cd width depth np ws bs act) cond y) = y.
Proof. exact @maf_net_fwd_inv_any. Qed.
Print Assumptions X01_maf_net_fwd_inv_any_transformer.

(* jnp.reshape(params, (dim, -1)) yields dim blocks of np parameters each *)
Theorem X01_conditioner_shapes :
  forall (A : Type) (zero : A) (add mul : A -> A -> A) (dim : nat) (cd : option nat)
         (width depth np : nat) (ws : list (list (list A))) (bs : list (list A)) (act : A -> A),
  length (nth depth ws []) = (dim * np)%nat -> length (nth depth bs []) = (dim * np)%nat ->
  forall inp, length (net_g zero add mul dim cd width depth np ws bs act inp) = dim /\
              List.Forall (fun p => length p = np) (net_g zero add mul dim cd width depth np ws bs act inp).
Proof. exact x01_conditioner_shapes. Qed.
Print Assumptions X01_conditioner_shapes.

(* the model's conditioner IS that network, for every NumOps record (floats, reals) *)
Theorem X01_maf_g_is_net_g :
  forall (A : Type) (O : NumOps A) dim cd width depth (s : tspec A) ws bs act inp,
  maf_g O dim cd width depth s ws bs act inp = net_g (Num.c O 0) (n_add O) (n_mul O) dim cd width depth (npar s) ws bs act inp.
Proof. exact @maf_g_is_net_g. Qed.
Print Assumptions X01_maf_g_is_net_g.

(* what the code evaluates after unwrap -- eqx.nn.MLP on jnp.where(mask, weight, 0) -- is the masked MLP on the raw weights *)
Theorem X01_unwrapped_mlp_is_masked_mlp :
  forall (A : Type) (O : NumOps A) (act : A -> A) (masks : list (list (list bool))) (ws : list (list (list A)))
         (bs : list (list A)) (x : list A), (length masks <= length ws)%nat ->
  mlp O (unwrap_weights O masks ws) bs act x = Masks.masked_mlp (Num.c O 0) (n_add O) (n_mul O) ws bs masks act x.
Proof. exact @mlp_unwrapped_is_masked. Qed.
Print Assumptions X01_unwrapped_mlp_is_masked_mlp.
Theorem X01_maf_unwrapped_is_masked :
  forall (A : Type) (O : NumOps A) dim cd width depth (s : tspec A) ws bs act inp, length ws = S depth ->
  maf_cond_net_unwrapped O (unwrap_weights O (maf_masks dim cd width depth (npar s)) ws) bs act inp =
  maf_cond_net O dim cd width depth s ws bs act inp.
Proof. exact @maf_unwrapped_is_masked. Qed.
Print Assumptions X01_maf_unwrapped_is_masked.

(* ============================ the transformers of the factories, every raw parameter block ============================ *)

(* Affine via _affine_with_min_scale (Some min_scale >= 0) or plain Affine() (None): scale > 0 for EVERY raw value.
   RationalQuadraticSpline: knots (softmax, adjust, halve, cumsum, pad) strictly increasing from lo to hi in x and y,
   K + 2 positive derivatives -- rqs_valid -- for EVERY raw vector of the right length. *)
Theorem X01_transformer_valid_for_all_raw :
  (forall ms q, match ms with None => True | Some m => 0 <= m end -> 0 < snd (affine_unwrap ROps ms q)) /\
  (forall K lo hi adj md q, length q = (3 * K + 2)%nat -> (1 <= K)%nat -> lo < hi -> 0 <= adj -> 0 <= md ->
     RqsInvP.rqs_valid (fst (fst (rqs_unwrap ROps K lo hi adj md q))) (snd (fst (rqs_unwrap ROps K lo hi adj md q)))
                       (snd (rqs_unwrap ROps K lo hi adj md q)) lo hi).
Proof. exact x01_transformer_valid. Qed.
Print Assumptions X01_transformer_valid_for_all_raw.

(* constructor(p) = unravel(p + init), unwrap, then the leaf: a bijection of R for every block p of num_params entries *)
Theorem X01_transformer_leaf_laws : forall s p, spec_ok s -> length p = npar s ->
  (forall v, t_inv ROps s p (t_fwd ROps s p v) = v) /\ (forall v, t_fwd ROps s p (t_inv ROps s p v) = v).
Proof. exact x01_transformer_leaf_laws. Qed.
Print Assumptions X01_transformer_leaf_laws.

(* "calling the constructor at the zero vector returns the initial pytree" *)
Theorem X01_ctor_at_zero : forall init : list R, ravel_ctor ROps init (repeat 0 (length init)) = init.
Proof. exact ctor_at_zero. Qed.
Print Assumptions X01_ctor_at_zero.

(* ============================ C01 for the concrete layers: all weights ============================ *)

(* MaskedAutoregressive: the scan of dim passes in inverse() undoes transform(), and conversely; any dim, cond_dim,
   width, depth, activation, RAW weights and biases (only the output size of the last layer is fixed), any condition. *)
Theorem X01_maf_net_inv_fwd :
  forall (dim : nat) (cd : option nat) (width depth : nat) (s : tspec R) (ws : list (list (list R))) (bs : list (list R))
         (act : R -> R), spec_ok s ->
  length (nth depth ws []) = (dim * npar s)%nat -> length (nth depth bs []) = (dim * npar s)%nat ->
  forall (c : option (list R)) (x : list R), length x = dim ->
  maf_inverse ROps dim cd width depth s ws bs act (maf_transform ROps dim cd width depth s ws bs act x c) c = x.
Proof. exact maf_net_inv_fwd. Qed.
Print Assumptions X01_maf_net_inv_fwd.
Theorem X01_maf_net_fwd_inv :
  forall (dim : nat) (cd : option nat) (width depth : nat) (s : tspec R) (ws : list (list (list R))) (bs : list (list R))
         (act : R -> R), spec_ok s ->
  length (nth depth ws []) = (dim * npar s)%nat -> length (nth depth bs []) = (dim * npar s)%nat ->
  forall (c : option (list R)) (y : list R), length y = dim ->
  maf_transform ROps dim cd width depth s ws bs act (maf_inverse ROps dim cd width depth s ws bs act y c) c = y.
Proof. exact maf_net_fwd_inv. Qed.
Print Assumptions X01_maf_net_fwd_inv.

(* Coupling with an ARBITRARY (unmasked) MLP conditioner *)
Theorem X01_coupling_net_inv_fwd :
  forall (ud dim : nat) (s : tspec R) (ws : list (list (list R))) (bs : list (list R)) (act : R -> R),
  spec_ok s -> (ud <= dim)%nat -> ws <> [] ->
  length (last ws []) = ((dim - ud) * npar s)%nat -> length (nth (length ws - 1) bs []) = ((dim - ud) * npar s)%nat ->
  forall (c : option (list R)) (x : list R), length x = dim ->
  coup_inverse ROps ud dim s ws bs act (coup_transform ROps ud dim s ws bs act x c) c = x.
Proof. exact coupling_net_inv_fwd. Qed.
Print Assumptions X01_coupling_net_inv_fwd.
Theorem X01_coupling_net_fwd_inv :
  forall (ud dim : nat) (s : tspec R) (ws : list (list (list R))) (bs : list (list R)) (act : R -> R),
  spec_ok s -> (ud <= dim)%nat -> ws <> [] ->
  length (last ws []) = ((dim - ud) * npar s)%nat -> length (nth (length ws - 1) bs []) = ((dim - ud) * npar s)%nat ->
  forall (c : option (list R)) (y : list R), length y = dim ->
  coup_transform ROps ud dim s ws bs act (coup_inverse ROps ud dim s ws bs act y c) c = y.
Proof. exact coupling_net_fwd_inv. Qed.
Print Assumptions X01_coupling_net_fwd_inv.

(* the point returned by transform_and_log_det / inverse_and_log_det is the point of transform / inverse *)
Theorem X01_and_log_det_points :
  (forall dim cd width depth s ws bs act x c,
     fst (maf_transform_and_log_det ROps dim cd width depth s ws bs act x c) = maf_transform ROps dim cd width depth s ws bs act x c /\
     fst (maf_inverse_and_log_det ROps dim cd width depth s ws bs act x c) = maf_inverse ROps dim cd width depth s ws bs act x c) /\
  (forall ud dim s ws bs act x c,
     fst (coup_transform_and_log_det ROps ud dim s ws bs act x c) = coup_transform ROps ud dim s ws bs act x c /\
     fst (coup_inverse_and_log_det ROps ud dim s ws bs act x c) = coup_inverse ROps ud dim s ws bs act x c).
Proof. exact x01_and_log_det_points. Qed.
Print Assumptions X01_and_log_det_points.

(* ============================ C02 for the concrete layers ============================ *)

(* the transformer's own log-det is ln |d/dx| of the map it computes (every raw block; spline: away from the interval
   ends); its inverse log-det is minus the forward one at the inverse image *)
Theorem X01_transformer_ldj : forall s p, spec_ok s -> length p = npar s ->
  (forall v, t_dom s v -> is_ldj (t_fwd ROps s p) v (t_ld_fwd ROps s p v)) /\
  (forall y, t_ld_inv ROps s p y = - t_ld_fwd ROps s p (t_inv ROps s p y)).
Proof. exact x01_transformer_ldj. Qed.
Print Assumptions X01_transformer_ldj.

(* MaskedAutoregressive.transform_and_log_det, concrete masked network, all weights:
   (1) the reported log-det is the sum over coordinates of the transformer's own log-det at x_i,
   (2) taken at a parameter block that depends on x_<i only, (3) y_i = transformer(block_i)(x_i);
   for x whose coordinates avoid the spline's interval ends:
   (4) y_i does not depend on x_j (j > i), (5) ln |dy_i/dx_i| is that own log-det,
   (6) hence the reported log-det = ln |det J| <> -inf for EVERY matrix J whose entries on and above the diagonal are the
       partial derivatives of transform at x (MathComp det of a triangular matrix, through C02_tri_jacobian_ldj), and
   (7) such J exist.
   _partial, what is missing: (a) the entries of J BELOW the diagonal are not required to be -- and are not proved to exist
   as -- partial derivatives (that needs a differentiable activation; relu is not at 0); they do not enter det J;
   (b) a coordinate exactly on an end of the spline interval is excluded: the map has a kink there unless the end derivative
   is 1 (C02_rqs_interval_ends states what the code reports at those two points). *)
Theorem X01_maf_net_ldj_partial : forall dim cd width depth s ws bs act c, spec_ok s ->
  length (nth depth ws []) = (dim * npar s)%nat -> length (nth depth bs []) = (dim * npar s)%nat ->
  let F := fun v => maf_transform ROps dim cd width depth s ws bs act v c in
  let blk := maf_block dim cd width depth s ws bs act c in
  forall x, length x = dim ->
  maf_log_det ROps dim cd width depth s ws bs act x c = sum ROps (map (fun i => t_ld_fwd ROps s (blk x i) (nth i x 0)) (seq 0 dim)) /\
  (forall x' i, length x' = dim -> (forall j, (j < i)%nat -> nth j x 0 = nth j x' 0) -> blk x i = blk x' i) /\
  (forall i, (i < dim)%nat -> nth i (F x) 0 = t_fwd ROps s (blk x i) (nth i x 0)) /\
  (List.Forall (t_dom s) x ->
     (forall i j t, (i < j)%nat -> (j < dim)%nat -> nth i (F (DetPJac.upd x j t)) 0 = nth i (F x) 0) /\
     (forall i, (i < dim)%nat -> is_ldj (fun t => nth i (F (DetPJac.upd x i t)) 0) (nth i x 0) (t_ld_fwd ROps s (blk x i) (nth i x 0))) /\
     (forall J, (forall i j, (i <= j)%nat -> (j < dim)%nat -> partial_at F x i j (J i j)) ->
        maf_log_det ROps dim cd width depth s ws bs act x c = ln (Rabs (detF dim J)) /\ detF dim J <> 0) /\
     (exists J, forall i j, (i <= j)%nat -> (j < dim)%nat -> partial_at F x i j (J i j))).
Proof. exact x01_maf_net_ldj. Qed.
Print Assumptions X01_maf_net_ldj_partial.

(* Coupling.transform_and_log_det with an arbitrary MLP conditioner: the first ud coordinates are returned unchanged
   (log-derivative 0), coordinate i >= ud uses a block computed from x[:ud] (and the condition) only.  _partial: as above. *)
Theorem X01_coupling_net_ldj_partial : forall ud dim s ws bs act c, spec_ok s -> (ud <= dim)%nat -> ws <> [] ->
  length (last ws []) = ((dim - ud) * npar s)%nat -> length (nth (length ws - 1) bs []) = ((dim - ud) * npar s)%nat ->
  let F := fun v => coup_transform ROps ud dim s ws bs act v c in
  let blk := coup_block ud dim ws bs act c in
  forall x, length x = dim ->
  coup_log_det ROps ud dim s ws bs act x c =
    sum ROps (map (fun i => if (i <? ud)%nat then 0 else t_ld_fwd ROps s (blk x i) (nth i x 0)) (seq 0 dim)) /\
  (forall i, (i < ud)%nat -> nth i (F x) 0 = nth i x 0) /\
  (forall i, (ud <= i)%nat -> (i < dim)%nat -> nth i (F x) 0 = t_fwd ROps s (blk x i) (nth i x 0)) /\
  (forall i j t, (ud <= j)%nat -> (j < dim)%nat -> blk (DetPJac.upd x j t) i = blk x i) /\
  (List.Forall (t_dom s) (skipn ud x) ->
     forall J, (forall i j, (i <= j)%nat -> (j < dim)%nat -> partial_at F x i j (J i j)) ->
       coup_log_det ROps ud dim s ws bs act x c = ln (Rabs (detF dim J)) /\ detF dim J <> 0).
Proof. exact x01_coupling_net_ldj. Qed.
Print Assumptions X01_coupling_net_ldj_partial.

(* inverse_and_log_det returns minus the forward log-det at the point it returns (MAF: as coded; Coupling: the sum of the
   transformers' own inverse log-dets equals it) *)
Theorem X01_inverse_log_det_law :
  (forall dim cd width depth s ws bs act c y,
     snd (maf_inverse_and_log_det ROps dim cd width depth s ws bs act y c) =
     - maf_log_det ROps dim cd width depth s ws bs act (maf_inverse ROps dim cd width depth s ws bs act y c) c) /\
  (forall ud dim s ws bs act c y, (ud <= length y)%nat ->
     snd (coup_inverse_and_log_det ROps ud dim s ws bs act y c) =
     - coup_log_det ROps ud dim s ws bs act (coup_inverse ROps ud dim s ws bs act y c) c).
Proof. exact x01_inverse_log_det_law. Qed.
Print Assumptions X01_inverse_log_det_law.

(* ============================ non-vacuity ============================ *)
(* an integer network (dim 2, width 2, depth 1, 2 parameters per coordinate, relu) whose RAW weights are non-zero under
   false mask entries: the block of coordinate 1 changes with x_0, not with x_1; the block of coordinate 0 is constant *)
Example X01_ex_masks : maf_masks 2 None 2 1 2 =
  [[[true; false]; [true; false]]; [[false; false]; [false; false]; [true; true]; [true; true]]].
Proof. vm_compute. reflexivity. Qed.
Example X01_ex_net_values :
  (ex_netZ [1; 2] = [[1; 0]; [13; 30]] /\ ex_netZ [1; 50] = [[1; 0]; [13; 30]] /\ ex_netZ [4; 2] = [[1; 0]; [46; 99]])%Z.
Proof. vm_compute. repeat split; reflexivity. Qed.
Example X01_ex_shape_hypotheses :
  length (nth 1%nat ex_wsZ []) = (2 * 2)%nat /\ length (nth 1%nat ex_bsZ []) = (2 * 2)%nat /\ (forall a : Z, (0 * a = 0)%Z).
Proof. repeat split. Qed.
(* the factory's affine transformer (min_scale 1/100) and a 3-knot spline on [-2, 3], both perturbed away from their
   initial parameters, meet spec_ok *)
Example X01_ex_specs : spec_ok ex_aff /\ spec_ok ex_rqs /\ npar ex_aff = 2%nat /\ npar ex_rqs = 11%nat.
Proof. split; [exact ex_aff_ok|]. split; [exact ex_rqs_ok|]. split; reflexivity. Qed.
(* the same network over R with the relu activation and that affine transformer: both round trips, with a condition too
   (cond_dim None: the condition is not fed to the network, as in the code the layer would reject it) *)
Example X01_ex_maf_roundtrip : forall x, length x = 2%nat ->
  maf_inverse ROps 2 None 2 1 ex_aff ex_wsR ex_bsR (act_of ROps ARelu)
    (maf_transform ROps 2 None 2 1 ex_aff ex_wsR ex_bsR (act_of ROps ARelu) x None) None = x.
Proof. exact (maf_net_inv_fwd 2 None 2 1 ex_aff ex_wsR ex_bsR (act_of ROps ARelu) ex_aff_ok eq_refl eq_refl None). Qed.
(* a coupling layer, untransformed_dim 1 of 2, depth-0 conditioner with 11 outputs, spline transformer *)
Example X01_ex_coupling_roundtrip : forall (c : list R) y, length y = 2%nat ->
  coup_transform ROps 1 2 ex_rqs [ex_w11] [ex_b11] (act_of ROps ATanh)
    (coup_inverse ROps 1 2 ex_rqs [ex_w11] [ex_b11] (act_of ROps ATanh) y (Some c)) (Some c) = y.
Proof.
  intros c. apply (coupling_net_fwd_inv 1 2 ex_rqs [ex_w11] [ex_b11] (act_of ROps ATanh) ex_rqs_ok); try reflexivity; [lia | discriminate].
Qed.
(* the spline built from the initial block p = 0 of that transformer is valid, so every statement about rqs_valid applies *)
Example X01_ex_rqs_valid :
  let u := rqs_unwrap ROps 3 (-2) 3 (1 / 100) (1 / 1000) (ravel_ctor ROps (t_init ex_rqs) (repeat 0 11)) in
  RqsInvP.rqs_valid (fst (fst u)) (snd (fst u)) (snd u) (-2) 3.
Proof. exact (t_rqs_valid 3 (-2) 3 (1 / 100) (1 / 1000) (t_init ex_rqs) (repeat 0 11) ex_rqs_ok eq_refl). Qed.
