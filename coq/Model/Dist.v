(* C03 / C04 -- executable model of flowjax/distributions.py::AbstractTransformed
   (_log_prob, _sample, _sample_and_log_prob, merge_transforms), of the composition code it
   runs (bijections/chain.py::Chain incl. merge_chains, bijections/utils.py::{Invert, Permute, Flip})
   and of the standard bases (StandardNormal, _StandardGumbel), over bijection expressions whose
   leaves are the elementary bijections of Model/Leaves.v applied elementwise to a 1-D array
   (coordinate i uses parameter block i: Affine/Scale/Loc with array parameters, Vmap(spline),
   LeakyTanh(m, (d,)) ...) plus TriangularAffine.  Generic over NumOps; no proofs, no Reals.

   Arrays are flat lists (distribution shape (d,); shape () is d = 1).  A log-det is a scalar. *)
From Coq Require Import List ZArith Bool.
From FJ Require Import Model.Num Model.Leaves.
Import ListNotations.

Section Dist.
  Context {A : Type} (O : NumOps A).
  Local Notation "a + b" := (n_add O a b).
  Local Notation "a - b" := (n_sub O a b).
  Local Notation "a * b" := (n_mul O a b).
  Local Notation "a / b" := (n_div O a b).
  Local Notation c := (Num.c O).

  (* ---------------- one coordinate of an elementwise leaf bijection ---------------- *)
  Inductive leaf : Type :=
  | LAffine (loc scale : A)
  | LLoc (loc : A)                      (* Loc; AdditiveCondition at a fixed condition *)
  | LScale (scale : A)
  | LExp | LSoftPlus | LTanh
  | LLeaky (m g ic : A)                 (* stored fields max_val, linear_grad, intercept *)
  | LRqs (xp yp dv : list A) (lo hi : A).

  Definition leaf_fwd (l : leaf) (x : A) : A :=
    match l with
    | LAffine loc s => affine_fwd O loc s x | LLoc loc => loc_fwd O loc x | LScale s => scale_fwd O s x
    | LExp => exp_fwd O x | LSoftPlus => softplus_fwd O x | LTanh => tanh_fwd O x
    | LLeaky m g ic => leaky_fwd O m g ic x
    | LRqs xp yp dv lo hi => rqs_fwd O xp yp dv lo hi x
    end.
  Definition leaf_inv (l : leaf) (y : A) : A :=
    match l with
    | LAffine loc s => affine_inv O loc s y | LLoc loc => loc_inv O loc y | LScale s => scale_inv O s y
    | LExp => exp_inv O y | LSoftPlus => softplus_inv O y | LTanh => tanh_inv O y
    | LLeaky m g ic => leaky_inv O m g ic y
    | LRqs xp yp dv lo hi => rqs_inv O xp yp dv lo hi y
    end.
  (* per-element term of transform_and_log_det's log-det (the methods sum these) *)
  Definition leaf_ldf (l : leaf) (x : A) : A :=
    match l with
    | LAffine _ s => affine_ld O s | LLoc _ => c 0 | LScale s => affine_ld O s
    | LExp => exp_ld_fwd x | LSoftPlus => softplus_ld_fwd O x | LTanh => tanh_ld_fwd O x
    | LLeaky m g _ => leaky_ld_fwd O m g x
    | LRqs xp yp dv lo hi => rqs_ld_fwd O xp yp dv lo hi x
    end.
  (* ... and of inverse_and_log_det's *)
  Definition leaf_ldi (l : leaf) (y : A) : A :=
    match l with
    | LAffine _ s => n_neg O (affine_ld O s) | LLoc _ => c 0 | LScale s => n_neg O (affine_ld O s)
    | LExp => exp_ld_inv O y | LSoftPlus => softplus_ld_inv O y | LTanh => tanh_ld_inv O y
    | LLeaky m g ic => leaky_ld_inv O m g ic y
    | LRqs xp yp dv lo hi => rqs_ld_inv O xp yp dv lo hi y
    end.

  (* coordinate i of the array goes through parameter block i *)
  Fixpoint zipw (f : leaf -> A -> A) (ls : list leaf) (xs : list A) : list A :=
    match ls, xs with
    | l :: ls', x :: xs' => f l x :: zipw f ls' xs'
    | _, _ => []
    end.

  (* x[idx] with an integer index array (Permute.transform: x[self.permutation]) *)
  Definition gather (x : list A) (idx : list Z) : list A := map (getz O x) idx.

  (* ---------------- bijection expressions ---------------- *)
  Inductive bexpr : Type :=
  | BElem (ls : list leaf)
  | BTri (lower : bool) (m : list (list A)) (loc : list A)     (* TriangularAffine, unwrapped matrix as rows *)
  | BPerm (p pinv : list Z)                                    (* Permute: permutation, inverse_permutation (flat) *)
  | BFlip
  | BInvert (b : bexpr)
  | BChain (bs : list bexpr).

  (* transform_and_log_det / inverse_and_log_det.
     Chain (chain.py): `log_abs_det_jac = 0; for b in bijections: x, l = b.transform_and_log_det(x); log_abs_det_jac += l.sum()`
     and `for b in reversed(bijections)` for the inverse; Invert (utils.py) swaps the two methods. *)
  Fixpoint run_fwd_ld (b : bexpr) (x : list A) {struct b} : list A * A :=
    match b with
    | BElem ls => (zipw leaf_fwd ls x, sum O (zipw leaf_ldf ls x))
    | BTri _ m loc => (tri_fwd O m loc x, tri_ld O m)
    | BPerm p _ => (gather x p, c 0)
    | BFlip => (rev x, c 0)
    | BInvert b' => run_inv_ld b' x
    | BChain bs =>
        fold_left (fun s b' => let r := run_fwd_ld b' (fst s) in (fst r, snd s + snd r)) bs (x, c 0)
    end
  with run_inv_ld (b : bexpr) (y : list A) {struct b} : list A * A :=
    match b with
    | BElem ls => (zipw leaf_inv ls y, sum O (zipw leaf_ldi ls y))
    | BTri lower m loc => (tri_inv O lower m loc y, n_neg O (tri_ld O m))
    | BPerm _ pinv => (gather y pinv, c 0)
    | BFlip => (rev y, c 0)
    | BInvert b' => run_fwd_ld b' y
    | BChain bs =>   (* fold_right: the LAST bijection is applied first, its log-det is added first *)
        fold_right (fun b' s => let r := run_inv_ld b' (fst s) in (fst r, snd s + snd r)) (y, c 0) bs
    end.

  (* transform / inverse (the methods AbstractTransformed._sample uses) *)
  Fixpoint run_fwd (b : bexpr) (x : list A) {struct b} : list A :=
    match b with
    | BElem ls => zipw leaf_fwd ls x
    | BTri _ m loc => tri_fwd O m loc x
    | BPerm p _ => gather x p
    | BFlip => rev x
    | BInvert b' => run_inv b' x
    | BChain bs => fold_left (fun s b' => run_fwd b' s) bs x
    end
  with run_inv (b : bexpr) (y : list A) {struct b} : list A :=
    match b with
    | BElem ls => zipw leaf_inv ls y
    | BTri lower m loc => tri_inv O lower m loc y
    | BPerm _ pinv => gather y pinv
    | BFlip => rev y
    | BInvert b' => run_fwd b' y
    | BChain bs => fold_right (fun b' s => run_inv b' s) y bs
    end.

  (* Chain.merge_chains: `while any(isinstance(b, Chain) for b in bijections): <splice one level>`.
     The loop is modelled with fuel; [bsize] bounds the number of passes. *)
  Definition is_chain (b : bexpr) : bool := match b with BChain _ => true | _ => false end.
  Definition merge_pass (l : list bexpr) : list bexpr :=
    flat_map (fun b => match b with BChain l' => l' | _ => [b] end) l.
  Fixpoint merge_loop (fuel : nat) (l : list bexpr) : list bexpr :=
    if existsb is_chain l then match fuel with 0%nat => l | S f => merge_loop f (merge_pass l) end else l.
  Fixpoint bsize (b : bexpr) : nat :=
    match b with
    | BInvert b' => S (bsize b')
    | BChain bs => S (fold_right (fun b' a => Nat.add (bsize b') a) 0%nat bs)
    | _ => 1%nat
    end.
  Definition merge_chains (l : list bexpr) : list bexpr := merge_loop (bsize (BChain l)) l.

  (* ---------------- distributions ---------------- *)
  Inductive fam := FNormal | FGumbel.
  (* jax.scipy.stats.norm.logpdf(x) with loc = 0, scale = 1, in jax's operation order:
     scale_sqrd = scale*scale; (log(2*pi*scale_sqrd) + (x - loc)^2 / scale_sqrd) / (-2) *)
  Definition std_normal_logpdf (x : A) : A :=
    let ssq := c 1 * c 1 in
    (n_log O ((c 2 * n_pi O) * ssq) + ((x - c 0) * (x - c 0)) / ssq) / c (-2).
  (* _StandardGumbel._log_prob: -(x + exp(-x)) *)
  Definition std_gumbel_logpdf (x : A) : A := n_neg O (x + n_exp O (n_neg O x)).
  Definition fam_logpdf (f : fam) : A -> A :=
    match f with FNormal => std_normal_logpdf | FGumbel => std_gumbel_logpdf end.
  (* `jstats.norm.logpdf(x).sum()` *)
  Definition base_logp (f : fam) (x : list A) : A := sum O (map (fam_logpdf f) x).

  Inductive dist : Type :=
  | DBase (f : fam)
  | DTrans (d : dist) (b : bexpr).      (* Transformed(base_dist, bijection); nesting allowed *)

  (* AbstractTransformed._log_prob:
       z, log_abs_det = self.bijection.inverse_and_log_det(x, condition)
       p_z = self.base_dist._log_prob(z, condition);  return p_z + log_abs_det *)
  Fixpoint logp (d : dist) (x : list A) : A :=
    match d with
    | DBase f => base_logp f x
    | DTrans d' b => let r := run_inv_ld b x in logp d' (fst r) + snd r
    end.

  Section Sampling.
    (* the base sampler (jr.normal(key, shape), jr.gumbel(...)) is external *)
    Context {K : Type} (draw : fam -> K -> list A).
    (* AbstractTransformed._sample: the SAME key goes down to the base; transform on the way up *)
    Fixpoint sample (d : dist) (k : K) : list A :=
      match d with
      | DBase f => draw f k
      | DTrans d' b => run_fwd b (sample d' k)
      end.
    (* AbstractDistribution._sample_and_log_prob (bases): x = _sample(key); (x, _log_prob(x))
       AbstractTransformed._sample_and_log_prob:
         base_sample, log_prob_base = self.base_dist._sample_and_log_prob(key, condition)
         sample, forward_log_dets = self.bijection.transform_and_log_det(base_sample, condition)
         return sample, log_prob_base - forward_log_dets *)
    Fixpoint sample_lp (d : dist) (k : K) : list A * A :=
      match d with
      | DBase f => let x := draw f k in (x, base_logp f x)
      | DTrans d' b =>
          let zl := sample_lp d' k in
          let r := run_fwd_ld b (fst zl) in
          (fst r, snd zl - snd r)
      end.
  End Sampling.

  (* AbstractTransformed.merge_transforms:
       if not isinstance(self.base_dist, AbstractTransformed): return self
       bijections = [self.bijection]; while isinstance(base_dist, AbstractTransformed): append, descend
       Transformed(base_dist, Chain(list(reversed(bijections))).merge_chains()) *)
  Fixpoint collect (d : dist) : dist * list bexpr :=       (* innermost base, bijections outermost first *)
    match d with
    | DBase _ => (d, [])
    | DTrans d' b => let r := collect d' in (fst r, b :: snd r)
    end.
  Definition merge_transforms (d : dist) : dist :=
    match d with
    | DBase _ => d
    | DTrans (DBase _) _ => d
    | DTrans _ _ => let r := collect d in DTrans (fst r) (BChain (merge_chains (rev (snd r))))
    end.
End Dist.

Arguments LExp {A}. Arguments LSoftPlus {A}. Arguments LTanh {A}.
Arguments BFlip {A}. Arguments BPerm {A}. Arguments DBase {A}.
Arguments leaf A : clear implicits. Arguments bexpr A : clear implicits. Arguments dist A : clear implicits.
