(* Model of the control flow of flowjax/train/data_fit.py::fit_to_data and
   flowjax/train/variational_fit.py::fit_to_variational_target, plus
   train_utils.py::count_fruitless.  Executable, no proofs.  Losses live in Z (any decidable
   total order behaves the same); parameters are identified by the number of epochs / steps after
   which they were obtained (0 = the initial parameters) -- this is what a counting optimiser
   makes observable on the real loops. *)
From Coq Require Import List ZArith Bool.
Import ListNotations.
Open Scope Z_scope.

(* python: min(losses) *)
Definition minimum (l : list Z) : Z := fold_right Z.min (hd 0 l) l.

(* jnp.argmin: index of the FIRST minimum *)
Fixpoint argmin (l : list Z) : nat :=
  match l with
  | [] => O
  | x :: t => match t with [] => O | _ => if x <=? minimum t then O else S (argmin t) end
  end.

(* train_utils.count_fruitless *)
Definition count_fruitless (l : list Z) : nat := (length l - argmin l - 1)%nat.

(* ---- fit_to_data ---- *)
Record st := { seen : list Z;      (* losses["val"] *)
               ntrain : nat;       (* len(losses["train"]) *)
               best : nat;         (* best_params, as an epoch number *)
               cur : nat;          (* params, as an epoch number *)
               stopped : bool }.

Definition st0 : st := {| seen := []; ntrain := O; best := O; cur := O; stopped := false |}.

(* one iteration of "for _ in loop:" given the validation loss v that the post-update parameters
   of this epoch obtain *)
Definition epoch (P : nat) (s : st) (v : Z) : st :=
  if stopped s then s else
  let seen' := seen s ++ [v] in
  let cur' := S (cur s) in
  if v =? minimum seen'
  then {| seen := seen'; ntrain := S (ntrain s); best := cur'; cur := cur'; stopped := false |}
  else {| seen := seen'; ntrain := S (ntrain s); best := best s; cur := cur';
          stopped := (P <? count_fruitless seen')%nat |}.

Definition run (P : nat) (vals : list Z) (max_epochs : nat) : st :=
  fold_left (epoch P) (firstn max_epochs vals) st0.

(* (returned parameters, len(losses["train"]), len(losses["val"])) *)
Definition fit_data_loop (P : nat) (vals : list Z) (max_epochs : nat) (return_best : bool)
  : nat * (nat * nat) :=
  let s := run P vals max_epochs in
  ((if return_best then best s else cur s), (ntrain s, length (seen s))).

(* ---- fit_to_variational_target ----
   step k (0-based) evaluates the loss at the parameters after k updates and then updates. *)
Record vst := { vseen : list Z; vbest : nat; vcur : nat }.
Definition vst0 : vst := {| vseen := []; vbest := O; vcur := O |}.

(* the loop as repaired (fix: D5): best_params := the parameters the loss was evaluated at *)
Definition vstep (s : vst) (v : Z) : vst :=
  let seen' := vseen s ++ [v] in
  {| vseen := seen'; vbest := (if v =? minimum seen' then vcur s else vbest s); vcur := S (vcur s) |}.

(* the loop as it was before the repair: best_params := the post-update parameters *)
Definition vstep_old (s : vst) (v : Z) : vst :=
  let seen' := vseen s ++ [v] in
  {| vseen := seen'; vbest := (if v =? minimum seen' then S (vcur s) else vbest s); vcur := S (vcur s) |}.

Definition vrun (losses : list Z) (steps : nat) : vst := fold_left vstep (firstn steps losses) vst0.
Definition vrun_old (losses : list Z) (steps : nat) : vst := fold_left vstep_old (firstn steps losses) vst0.

Definition fit_var_loop (losses : list Z) (steps : nat) (return_best : bool) : nat * nat :=
  let s := vrun losses steps in ((if return_best then vbest s else vcur s), length (vseen s)).
Definition fit_var_loop_old (losses : list Z) (steps : nat) (return_best : bool) : nat * nat :=
  let s := vrun_old losses steps in ((if return_best then vbest s else vcur s), length (vseen s)).
