(* The REAL MaskedAutoregressive and Coupling layers of flowjax, conditioner network included.
   Executable Gallina, generic over [NumOps A], no proofs, no Reals.  Anchors (all under /repo/flowjax):
     bijections/masked_autoregressive.py   MaskedAutoregressive.{transform, transform_and_log_det, inverse, inv_scan_fn,
                                           inverse_and_log_det, _flat_params_to_transformer}, masked_autoregressive_mlp
     bijections/coupling.py                Coupling.{transform, transform_and_log_det, inverse, inverse_and_log_det,
                                           _flat_params_to_transformer}
     utils.py                              get_ravelled_pytree_constructor  (constructor(p) = unravel(p + init))
     flows.py                              _affine_with_min_scale  (scale = BijectionReparam(1, Chain[SoftPlus, Loc(min_scale)]))
     bijections/rational_quadratic_spline.py   __init__ (x_pos, y_pos, derivatives as Lambda wrappers)
     bijections/jax_transforms.py          Vmap(transformer, in_axes=if_array(0)): elementwise, log-det = jnp.sum
     wrappers.py                           unwrap (Where, BijectionReparam, Lambda)
     equinox.nn.MLP.__call__ / Linear.__call__   weight @ x + bias, activation between layers, last layer linear

   It is built from the pieces that already carry theorems:
     Model/Autoreg.v   the wiring (maf_fwd, maf_inv = the lax.scan over coordinates, coupling_fwd, coupling_inv, vmap_t)
     Model/Masks.v     masked_mlp (Where applied at evaluation), maf_masks, reshape_rows, linear
     Model/Constr.v    knots (softmax / adjust / halve / cumsum / pad), derivs (softplus + min_derivative)
     Model/Leaves.v    affine_*, rqs_* (the scalar transformers)
   Vectors are lists; a parameter block (one row of jnp.reshape(params, (dim, -1))) is a list. *)
From Coq Require Import List ZArith Bool Arith.
From FJ Require Import Model.Num Model.Leaves Model.Autoreg Model.Masks Model.Constr.
Import ListNotations.

Section Net.
  Context {A : Type} (O : NumOps A).
  Local Notation zero := (Num.c O 0).
  Local Notation add := (n_add O).
  Local Notation mul := (n_mul O).

  (* ---------------- eqx.nn.MLP on PLAIN arrays (what runs after unwrap) ---------------- *)
  (* for layer in layers[:-1]: x = activation(layer(x));  x = layers[-1](x); final_activation = identity.
     depth = 0: the single layer, no activation.  A missing bias is an empty one. *)
  Fixpoint mlp (ws : list (list (list A))) (bs : list (list A)) (act : A -> A) (x : list A) : list A :=
    match ws with
    | [] => x
    | w :: ws' =>
        let h := Masks.linear zero add mul w (hd [] bs) x in
        match ws' with
        | [] => h
        | _ :: _ => mlp ws' (tl bs) act (map act h)
        end
    end.
  (* unwrap of the MLP's weights: Where(mask, weight, 0) -> jnp.where(mask, weight, 0), layer by layer *)
  Definition unwrap_weights (masks : list (list (list bool))) (ws : list (list (list A))) : list (list (list A)) :=
    map (fun p => Masks.where_mask zero (fst p) (snd p)) (combine masks ws).

  (* the activations the tie exercises (the theorems hold for an arbitrary act : A -> A) *)
  Inductive actk := ARelu | ATanh.
  Definition act_of (k : actk) (x : A) : A :=
    match k with
    | ARelu => nmax O x zero          (* jax.nn.relu = jnp.maximum(x, 0) *)
    | ATanh => n_tanh O x
    end.

  (* ---------------- the transformer handed to the layer's constructor ---------------- *)
  (* Reduced to what get_ravelled_pytree_constructor and unwrap use.  [init] is the ravelled vector of the
     transformer's inexact-array leaves in field order, NonTrainable leaves excluded:
       Affine (flows._affine_with_min_scale or plain Affine()):  [loc; scale.arr]      (Loc(min_scale).loc is NonTrainable)
       RationalQuadraticSpline(knots = K):  x_pos.args[0] (K) ++ y_pos.args[0] (K) ++ derivatives.args[0] (K+2) *)
  Inductive tspec :=
  | TAffine (ms : option A) (init : list A)     (* None: BijectionReparam(arr, SoftPlus()); Some ms: Chain[SoftPlus, Loc ms] *)
  | TRqs (K : nat) (lo hi adj md : A) (init : list A).
  Definition t_init (s : tspec) : list A := match s with TAffine _ i => i | TRqs _ _ _ _ _ i => i end.
  (* num_params = len(init) *)
  Definition npar (s : tspec) : nat := length (t_init s).

  (* constructor(ravelled_params): params = unravel(ravelled_params + init) *)
  Definition ravel_ctor (init p : list A) : list A := Leaves.vadd O p init.

  (* unravel + unwrap, Affine: loc = q[0]; scale = softplus(q[1]) (+ min_scale) *)
  Definition affine_unwrap (ms : option A) (q : list A) : A * A :=
    let loc := nth 0 q zero in
    let raw := nth 1 q zero in
    (loc, match ms with None => Constr.softplus O raw | Some m => Constr.min_scale_unwrap O m raw end).
  (* unravel + unwrap, spline: leaves of sizes K, K, K+2; x_pos / y_pos = _real_to_increasing_on_interval,
     derivatives = softplus(arr) + min_derivative *)
  Definition rqs_unwrap (K : nat) (lo hi adj md : A) (q : list A) : list A * list A * list A :=
    (Constr.knots O lo hi adj (firstn K q),
     Constr.knots O lo hi adj (firstn K (skipn K q)),
     Constr.derivs O md (firstn (K + 2) (skipn (K + K) q))).

  (* the unwrapped parameters of the transformer of one coordinate, flattened (what the tie compares):
     Affine: [loc; scale];  spline: x_pos ++ y_pos ++ derivatives *)
  Definition t_params (s : tspec) (p : list A) : list A :=
    match s with
    | TAffine ms init => let q := affine_unwrap ms (ravel_ctor init p) in [fst q; snd q]
    | TRqs K lo hi adj md init =>
        let q := rqs_unwrap K lo hi adj md (ravel_ctor init p) in fst (fst q) ++ snd (fst q) ++ snd q
    end.

  (* the scalar bijection built from one parameter block p (a row of the reshaped conditioner output) *)
  Definition t_fwd (s : tspec) (p : list A) (x : A) : A :=
    match s with
    | TAffine ms init => let q := affine_unwrap ms (ravel_ctor init p) in affine_fwd O (fst q) (snd q) x
    | TRqs K lo hi adj md init =>
        let q := rqs_unwrap K lo hi adj md (ravel_ctor init p) in rqs_fwd O (fst (fst q)) (snd (fst q)) (snd q) lo hi x
    end.
  Definition t_inv (s : tspec) (p : list A) (y : A) : A :=
    match s with
    | TAffine ms init => let q := affine_unwrap ms (ravel_ctor init p) in affine_inv O (fst q) (snd q) y
    | TRqs K lo hi adj md init =>
        let q := rqs_unwrap K lo hi adj md (ravel_ctor init p) in rqs_inv O (fst (fst q)) (snd (fst q)) (snd q) lo hi y
    end.
  (* log-det the transformer itself reports with transform_and_log_det / inverse_and_log_det *)
  Definition t_ld_fwd (s : tspec) (p : list A) (x : A) : A :=
    match s with
    | TAffine ms init => let q := affine_unwrap ms (ravel_ctor init p) in affine_ld O (snd q)
    | TRqs K lo hi adj md init =>
        let q := rqs_unwrap K lo hi adj md (ravel_ctor init p) in rqs_ld_fwd O (fst (fst q)) (snd (fst q)) (snd q) lo hi x
    end.
  Definition t_ld_inv (s : tspec) (p : list A) (y : A) : A :=
    match s with
    | TAffine ms init => let q := affine_unwrap ms (ravel_ctor init p) in n_neg O (affine_ld O (snd q))
    | TRqs K lo hi adj md init =>
        let q := rqs_unwrap K lo hi adj md (ravel_ctor init p) in rqs_ld_inv O (fst (fst q)) (snd (fst q)) (snd q) lo hi y
    end.

  (* Vmap(transformer, in_axes=if_array(0)).transform_and_log_det: per coordinate, then jnp.sum *)
  Definition vmap_ld (ld : list A -> A -> A) (blocks : list (list A)) (xs : list A) : A :=
    Num.sum O (map (fun q => ld (fst q) (snd q)) (combine blocks xs)).

  (* `x if condition is None else jnp.hstack((x, condition))`: hstack with nothing appended is x itself *)
  Definition cond_list (c : option (list A)) : list A := match c with None => [] | Some cv => cv end.

  (* ---------------- MaskedAutoregressive ---------------- *)
  Section MafLayer.
    Variables (dim : nat) (cd : option nat) (width depth : nat) (s : tspec).
    Variables (ws : list (list (list A))) (bs : list (list A)) (act : A -> A).   (* RAW weights; biases *)

    (* transformer_params = self.masked_autoregressive_mlp(nn_input): the masks are applied at evaluation *)
    Definition maf_cond_net (inp : list A) : list A :=
      Masks.masked_mlp zero add mul ws bs (maf_masks dim cd width depth (npar s)) act inp.
    (* jnp.reshape(params, (dim, -1)): one block per coordinate *)
    Definition maf_g (inp : list A) : list (list A) := reshape_rows dim (maf_cond_net inp).

    Definition maf_transform (x : list A) (c : option (list A)) : list A :=
      maf_fwd (t_fwd s) maf_g (cond_list c) x.
    Definition maf_log_det (x : list A) (c : option (list A)) : A :=
      vmap_ld (t_ld_fwd s) (maf_g (x ++ cond_list c)) x.
    Definition maf_transform_and_log_det (x : list A) (c : option (list A)) : list A * A :=
      (maf_transform x c, maf_log_det x c).
    (* lax.scan(inv_scan_fn, (y, 0), None, length=len(y)) *)
    Definition maf_inverse (y : list A) (c : option (list A)) : list A :=
      maf_inv zero (t_inv s) maf_g (cond_list c) y.
    (* x = self.inverse(y); log_det = self.transform_and_log_det(x)[1]; return x, -log_det *)
    Definition maf_inverse_and_log_det (y : list A) (c : option (list A)) : list A * A :=
      let x := maf_inverse y c in (x, n_neg O (maf_log_det x c)).
    (* the unwrapped transformer parameters per coordinate at network input inp *)
    Definition maf_tparams (inp : list A) : list (list A) := map (t_params s) (maf_g inp).
  End MafLayer.

  (* the same layer evaluated from the UNWRAPPED (already masked) weights, as the code does after unwrap *)
  Definition maf_cond_net_unwrapped (mws : list (list (list A))) (bs : list (list A)) (act : A -> A) (inp : list A) : list A :=
    mlp mws bs act inp.

  (* ---------------- Coupling ---------------- *)
  Section CouplingLayer.
    Variables (ud dim : nat) (s : tspec).
    Variables (ws : list (list (list A))) (bs : list (list A)) (act : A -> A).

    Definition coup_cond_net (inp : list A) : list A := mlp ws bs act inp.
    (* jnp.reshape(params, (dim - untransformed_dim, -1)) *)
    Definition coup_g (inp : list A) : list (list A) := reshape_rows (dim - ud) (coup_cond_net inp).

    Definition coup_transform (x : list A) (c : option (list A)) : list A :=
      coupling_fwd (t_fwd s) coup_g ud (cond_list c) x.
    Definition coup_log_det (x : list A) (c : option (list A)) : A :=
      vmap_ld (t_ld_fwd s) (coup_g (firstn ud x ++ cond_list c)) (skipn ud x).
    Definition coup_transform_and_log_det (x : list A) (c : option (list A)) : list A * A :=
      (coup_transform x c, coup_log_det x c).
    Definition coup_inverse (y : list A) (c : option (list A)) : list A :=
      coupling_inv (t_inv s) coup_g ud (cond_list c) y.
    (* transformer.inverse_and_log_det(y_trans): the transformers' own inverse log-dets, summed *)
    Definition coup_inv_log_det (y : list A) (c : option (list A)) : A :=
      vmap_ld (t_ld_inv s) (coup_g (firstn ud y ++ cond_list c)) (skipn ud y).
    Definition coup_inverse_and_log_det (y : list A) (c : option (list A)) : list A * A :=
      (coup_inverse y c, coup_inv_log_det y c).
    Definition coup_tparams (inp : list A) : list (list A) := map (t_params s) (coup_g inp).
  End CouplingLayer.

  (* ---------------- initial parameters of the two factory transformers ---------------- *)
  (* _affine_with_min_scale(ms): Affine() with scale replaced: init = [0; SoftPlus^-1(1 - ms)] *)
  Definition affine_min_scale_init (ms : A) : list A := [zero; Constr.min_scale_init O ms].
  (* RationalQuadraticSpline(knots=K, min_derivative=md): zeros(K), zeros(K), full(K+2, log(exp(1-md)-1)) *)
  Definition rqs_init (K : nat) (md : A) : list A :=
    repeat zero K ++ repeat zero K ++ repeat (Constr.deriv_init O md) (K + 2).
End Net.
Arguments tspec A : clear implicits.
