(* Model of the data handling of flowjax/train/data_fit.py::fit_to_data and
   flowjax/train/train_utils.py::{train_val_split, get_batches, _add_batch} (property C15).
   Executable, discrete, no proofs.

   * PRNG keys are PATHS from the key the caller passes in: [split k n = [k++[0]; ...; k++[n-1]]].
   * jr.permutation enters as the function argument [perm : key -> nat -> list nat]: [perm k n] is
     the index permutation that jr.permutation(k, .) applies to axis 0 of an array with n rows (the
     same for every array of that length -- JAX computes it from (k, n) only).  Nothing else is
     known about it; the proofs assume only that it is a permutation of [seq 0 n], the driver is
     handed the concrete permutations JAX produced.
   * An array is the list of the ROW IDS it holds (row i of x and row i of condition both carry the
     id i), so "x row i travels with condition row i" reads: all arrays of a call are equal.
   * [n_train] is a parameter (the code computes it as n - round(val_prop*n); that float arithmetic
     is glue checked by the harness).  The patience rule (C16) is outside: the model runs
     [max_epochs] epochs, i.e. describes a run whose patience is never exhausted; an early stop is a
     prefix of it.
   * ZeroDivisionError of _add_batch (empty split half, batch_size 0) is modelled: [e_raised]. *)
From Coq Require Import List Arith Bool.
Import ListNotations.

Definition key := list nat.
Definition array := list nat.

(* jr.split(k, n) *)
Definition split (k : key) (n : nat) : list key := map (fun i => k ++ [i]) (seq 0 n).
(* key, subkey = jr.split(key) *)
Definition split2 (k : key) : key * key :=
  match split k 2 with [a; b] => (a, b) | _ => (k, k) end.
(* key, *subkeys = jr.split(key, 3) *)
Definition split3 (k : key) : key * (key * key) :=
  match split k 3 with [a; b; c] => (a, (b, c)) | _ => (k, (k, k)) end.

(* a[p] (gather along axis 0) *)
Definition take (p : list nat) (a : array) : array := map (fun i => nth i a 0) p.
(* jr.permutation(k, a) *)
Definition permutation (perm : key -> nat -> list nat) (k : key) (a : array) : array :=
  take (perm k (length a)) a.

(* train_utils.train_val_split, with n_train given:
     arrays = [jr.permutation(key, a) for a in arrays]
     train_arrays = [arr[:n_train] for arr in arrays]; val_arrays = [arr[n_train:] for arr in arrays] *)
Definition train_val_split (perm : key -> nat -> list nat) (k : key) (arrays : list array) (n_train : nat)
  : list array * list array :=
  let arrays' := map (permutation perm k) arrays in
  (map (firstn n_train) arrays', map (skipn n_train) arrays').

(* reshape(n_batches, batch_size, ...) of an array with n_batches*batch_size rows (C order) *)
Fixpoint chunks (n_batches batch_size : nat) (a : array) : list array :=
  match n_batches with
  | O => []
  | S nb => firstn batch_size a :: chunks nb batch_size (skipn batch_size a)
  end.

(* train_utils._add_batch; None = ZeroDivisionError (arr.shape[0] // 0) *)
Definition add_batch (a : array) (batch_size : nat) : option (list array) :=
  let bs := Nat.min batch_size (length a) in
  if bs =? 0 then None
  else let n_batches := length a / bs in
       Some (chunks n_batches bs (firstn (n_batches * bs) a)).

(* train_utils.get_batches: tuple(_add_batch(arr, batch_size) for arr in arrays).  (Its ValueError for
   unequal lengths cannot occur: both halves of the split hold arrays of one length.) *)
Fixpoint get_batches (arrays : list array) (batch_size : nat) : option (list (list array)) :=
  match arrays with
  | [] => Some []
  | a :: rest =>
      match add_batch a batch_size, get_batches rest batch_size with
      | Some b, Some bs => Some (b :: bs)
      | _, _ => None
      end
  end.

(* zip( *cols, strict=True): the j-th element is the tuple of the j-th batch of every array *)
Fixpoint zipn (fuel : nat) (cols : list (list array)) : list (list array) :=
  match fuel with
  | O => []
  | S f => map (hd []) cols :: zipn f (map (@tl array) cols)
  end.
Definition zip_batches (cols : list (list array)) : list (list array) := zipn (length (hd [] cols)) cols.

Inductive kind := Train | Val.   (* Train: inside step (value_and_grad + update); Val: loss only *)
Record call := mk_call { c_kind : kind; c_key : key; c_args : list array }.
(* the x argument / the condition argument of a call *)
Definition c_x (c : call) : array := hd [] (c_args c).
Definition c_cond (c : call) : array := hd [] (tl (c_args c)).

(* for batch in zip(...): key, subkey = jr.split(key); <loss>(params, static, *batch, key=subkey) *)
Fixpoint run_batches (kd : kind) (k : key) (batches : list (list array)) : key * list call :=
  match batches with
  | [] => (k, [])
  | b :: rest =>
      let '(k1, subkey) := split2 k in
      let '(k2, cs) := run_batches kd k1 rest in
      (k2, mk_call kd subkey b :: cs)
  end.

Record state := mk_state { s_key : key; s_train : list array; s_val : list array }.
(* what one pass of the epoch loop did: the permutations drawn (key, number of rows), the loss
   calls in order, and whether it ended in the ZeroDivisionError *)
Record epoch_out := mk_out { e_perm : list (key * nat); e_calls : list call; e_raised : bool }.

(* one iteration of "for _ in loop:" *)
Definition epoch (perm : key -> nat -> list nat) (batch_size : nat) (s : state) : state * epoch_out :=
  let '(k, (sk0, sk1)) := split3 (s_key s) in
  let train := map (permutation perm sk0) (s_train s) in
  let val := map (permutation perm sk1) (s_val s) in
  let pk := [(sk0, length (hd [] (s_train s))); (sk1, length (hd [] (s_val s)))] in
  match get_batches train batch_size with
  | None => (mk_state k train val, mk_out pk [] true)
  | Some tb =>
      let '(k', cs1) := run_batches Train k (zip_batches tb) in
      match get_batches val batch_size with
      | None => (mk_state k' train val, mk_out pk cs1 true)
      | Some vb =>
          let '(k'', cs2) := run_batches Val k' (zip_batches vb) in
          (mk_state k'' train val, mk_out pk (cs1 ++ cs2) false)
      end
  end.

Fixpoint epochs (perm : key -> nat -> list nat) (batch_size max_epochs : nat) (s : state) : list epoch_out :=
  match max_epochs with
  | O => []
  | S m => let '(s', o) := epoch perm batch_size s in
           o :: (if e_raised o then [] else epochs perm batch_size m s')
  end.

(* fit_to_data(key, dist, x, condition=..., batch_size=..., max_epochs=...) with n rows:
   ((key, n) of the permutation of train_val_split, the epochs) *)
Definition fit (perm : key -> nat -> list nat) (key0 : key) (n n_train batch_size max_epochs : nat)
  (has_cond : bool) : (key * nat) * list epoch_out :=
  let data := if has_cond then [seq 0 n; seq 0 n] else [seq 0 n] in
  let '(k, subkey) := split2 key0 in
  let '(train_data, val_data) := train_val_split perm subkey data n_train in
  ((subkey, n), epochs perm batch_size max_epochs (mk_state k train_data val_data)).

Definition fit_epochs perm key0 n n_train bs me hc : list epoch_out := snd (fit perm key0 n n_train bs me hc).
(* the ordered list of loss calls *)
Definition fit_trace perm key0 n n_train bs me hc : list call :=
  concat (map e_calls (fit_epochs perm key0 n n_train bs me hc)).
(* every (key, length) handed to jr.permutation, in order *)
Definition fit_perm_keys perm key0 n n_train bs me hc : list (key * nat) :=
  fst (fit perm key0 n n_train bs me hc) :: concat (map e_perm (fit_epochs perm key0 n n_train bs me hc)).
Definition fit_raised perm key0 n n_train bs me hc : bool :=
  existsb e_raised (fit_epochs perm key0 n n_train bs me hc).

(* the permutation every proof-free run may use when only the key structure matters *)
Definition id_perm (_ : key) (n : nat) : list nat := seq 0 n.
(* lookup in a table of concrete permutations; a missing entry yields [] (an empty array: visible) *)
Fixpoint table_perm (tbl : list ((key * nat) * list nat)) (k : key) (n : nat) : list nat :=
  match tbl with
  | [] => []
  | ((k', n'), p) :: rest =>
      if (list_eq_dec Nat.eq_dec k k') then (if n =? n' then p else table_perm rest k n) else table_perm rest k n
  end.
