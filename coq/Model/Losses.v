(* Model of flowjax/train/losses.py: MaximumLikelihoodLoss, ContrastiveLoss (+ _get_contrastive_idxs),
   ElboLoss (both estimators).  Executable, no proofs, no Reals; analytic code generic over [NumOps A].

   What is NOT in the model: the distributions themselves.  A distribution enters through its PUBLIC
   methods, as functions ([log_prob], [sample], [sample_and_log_prob]); the harness supplies their
   outputs (tables) to the extracted code.  PRNG behaviour enters as functions too: [split] (jr.split)
   and [choice] (jr.choice(..., replace=False)). *)
From Coq Require Import List ZArith Bool.
From FJ Require Import Model.Num.
Import ListNotations.

Section Analytic.
  Context {A : Type} (O : NumOps A).

  (* jnp.mean of a 1-d array: sum / size *)
  Definition mean (l : list A) : A := n_div O (sum O l) (n_ofZ O (Z.of_nat (length l))).

  (* ---- MaximumLikelihoodLoss.__call__:  -dist.log_prob(x, condition).mean()
     [lps] = dist.log_prob(x, condition), one entry per batch row (same code path with or without a
     condition). *)
  Definition ml_loss (lps : list A) : A := n_neg O (mean lps).

  (* elementwise a - b of two arrays of the same shape *)
  Fixpoint sub_list (a b : list A) : list A :=
    match a, b with x :: s, y :: t => n_sub O x y :: sub_list s t | _, _ => [] end.

  (* ---- jax.scipy.special.logsumexp(a) for a 1-d array (no b, no axis), as coded:
       amax = max(a, initial=-inf); amax = stop_gradient(select(isfinite(amax), amax, 0))
       out  = log(sum(exp(a - amax))) + amax
     The running maximum starts from the first element (the arrays here are never empty; for the empty
     array amax = -inf is replaced by 0 by the isfinite guard, which is what [maxl [] = 0] gives). *)
  Definition maxl (l : list A) : A := match l with [] => c O 0 | x :: t => fold_left (nmax O) t x end.
  (* isfinite(m): m - m = 0 (inf - inf and nan - nan are nan) *)
  Definition finite_or_zero (m : A) : A := if n_eqb O (n_sub O m m) (c O 0) then m else c O 0.
  Definition logsumexp (l : list A) : A :=
    let amax := finite_or_zero (maxl l) in
    n_add O (n_log O (sum O (map (fun a => n_exp O (n_sub O a amax)) l))) amax.
  (* the defining formula, without the shift (for the equality theorem; also extracted and run) *)
  Definition logsumexp_plain (l : list A) : A := n_log O (sum O (map (n_exp O) l)).

  (* x[idx] for an index array: negative indices wrap once, out-of-range indices clamp (JAX gather);
     [d] is only returned for the empty list *)
  Definition gatherz {X : Type} (l : list X) (i : Z) (d : X) : X :=
    let n := Z.of_nat (length l) in
    let j := if (i <? 0)%Z then (i + n)%Z else i in
    let j := Z.max 0 (Z.min (n - 1) j) in
    nth (Z.to_nat j) l d.

  (* ---- ContrastiveLoss.__call__.single_x_loss(x_i, condition_i, contrastive_idxs)
     [lq y c] = dist.log_prob(y, c), [prior y] = self.prior.log_prob(y), [xs] = the batch x *)
  Section Contrastive.
    Context {X C : Type}.
    Variable lq : X -> C -> A.
    Variable prior : X -> A.
    Definition single_x_loss (xs : list X) (x_i : X) (c_i : C) (idxs : list Z) : A :=
      let positive_logit := n_sub O (lq x_i c_i) (prior x_i) in
      let contrastive := map (fun j => gatherz xs j x_i) idxs in
      let contrastive_logits := map (fun y => n_sub O (lq y c_i) (prior y)) contrastive in
      let normalizer := logsumexp (contrastive_logits ++ [positive_logit]) in   (* jnp.append(cl, positive) *)
      n_neg O (n_sub O positive_logit normalizer).

    (* eqx.filter_vmap(single_x_loss)(x, condition, contrastive_idxs).mean() *)
    Definition contrastive_rows (xs : list X) (conds : list C) (idxs : list (list Z)) : list A :=
      map (fun r => single_x_loss xs (fst (fst r)) (snd (fst r)) (snd r)) (combine (combine xs conds) idxs).
  End Contrastive.
End Analytic.

(* ---- _get_contrastive_idxs(key, batch_size, n_contrastive) -- discrete.
     keys = jr.split(key, batch_size)
     row idx (vmapped over keys and arange(batch_size)):
        choices = jnp.delete(jnp.arange(batch_size), idx, assume_unique_indices=True)
        jr.choice(key_idx, choices, (n_contrastive,), replace=False) *)
Section Indices.
  Context {K : Type}.
  Variable split : K -> nat -> list K.
  Variable choice : K -> list Z -> nat -> list Z.
  Definition arange (B : nat) : list Z := map Z.of_nat (seq 0 B).
  (* jnp.delete(a, idx) for a scalar position 0 <= idx: drops the element AT POSITION idx *)
  Definition delete_at (l : list Z) (i : nat) : list Z := firstn i l ++ skipn (S i) l.
  Definition get_idxs (k : K) (idx : Z) (B n : nat) : list Z :=
    let choices := delete_at (arange B) (Z.to_nat idx) in
    choice k choices n.
  Definition get_contrastive_idxs (key : K) (B n : nat) : list (list Z) :=
    map (fun ki => get_idxs (fst ki) (snd ki) B n) (combine (split key B) (arange B)).
End Indices.

(* ---- ContrastiveLoss.__call__ as a whole: None = the ValueError raised when x.shape[0] <= n_contrastive *)
Section ContrastiveLoss.
  Context {A : Type} (O : NumOps A) {K X C : Type}.
  Variable split : K -> nat -> list K.
  Variable choice : K -> list Z -> nat -> list Z.
  Variable lq : X -> C -> A.
  Variable prior : X -> A.
  Definition contrastive_loss (n_contrastive : nat) (xs : list X) (conds : list C) (key : K) : option A :=
    if (length xs <=? n_contrastive)%nat then None else
    let idxs := get_contrastive_idxs split choice key (length xs) n_contrastive in
    Some (mean O (contrastive_rows O lq prior xs conds idxs)).
End ContrastiveLoss.

(* ---- ElboLoss.__call__(params, static, key)
     P = parameters, K = keys, X = sample points.
       stick_the_landing:  samples = dist.sample(key, (n,)); dist' = combine(stop_gradient(params), static);
                           log_probs = dist'.log_prob(samples)
       otherwise:          samples, log_probs = dist.sample_and_log_prob(key, (n,))
       (log_probs - vmap(target)(samples)).mean()
     sample/sample_and_log_prob with sample_shape (n,) draw one point per key of jr.split(key, n)
     (AbstractDistribution._get_sample_keys). *)
Section Elbo.
  Context {A : Type} (O : NumOps A) {P K X : Type}.
  Variable split : K -> nat -> list K.
  Variable sample : P -> K -> X.                (* dist._sample at one key *)
  Variable log_prob : P -> X -> A.              (* dist.log_prob at one point *)
  Variable sample_lp : P -> K -> X * A.         (* dist._sample_and_log_prob at one key *)
  Variable target : X -> A.
  Variable stopg : P -> P.                      (* jax.lax.stop_gradient on the parameter pytree *)
  Definition elbo_loss (stick_the_landing : bool) (num_samples : nat) (params : P) (key : K) : A :=
    let keys := split key num_samples in
    if stick_the_landing then
      let samples := map (sample params) keys in
      let log_probs := map (log_prob (stopg params)) samples in
      mean O (sub_list O log_probs (map target samples))
    else
      let sl := map (sample_lp params) keys in
      let samples := map fst sl in
      let log_probs := map snd sl in
      mean O (sub_list O log_probs (map target samples)).
End Elbo.

(* ---- forward-mode dual numbers (value, tangent) as one more NumOps instance: the SAME [elbo_loss]
   run at this instance carries the directional derivative of the loss along one parameter direction.
   stop_gradient = "tangent := 0".  Comparisons look at the value only.  Primitives the losses do not
   use are differentiated where NumOps can express the derivative; lgamma has none (no digamma in
   NumOps) and gets the tangent 0/0 (NaN in floats) so that it can never be used silently. *)
Section Dual.
  Context {A : Type} (O : NumOps A).
  Definition dual := (A * A)%type.
  Let add := n_add O. Let sub := n_sub O. Let mul := n_mul O. Let div := n_div O.
  Definition d_const (a : A) : dual := (a, c O 0).
  Definition d_stop (x : dual) : dual := (fst x, c O 0).
  Definition d_lift (f f' : A -> A) (x : dual) : dual := (f (fst x), mul (f' (fst x)) (snd x)).
  Definition DOps : NumOps dual := {|
    n_add := fun x y => (add (fst x) (fst y), add (snd x) (snd y));
    n_sub := fun x y => (sub (fst x) (fst y), sub (snd x) (snd y));
    n_mul := fun x y => (mul (fst x) (fst y), add (mul (snd x) (fst y)) (mul (fst x) (snd y)));
    n_div := fun x y => (div (fst x) (fst y),
                         div (sub (snd x) (mul (div (fst x) (fst y)) (snd y))) (fst y));
    n_neg := fun x => (n_neg O (fst x), n_neg O (snd x));
    n_abs := d_lift (n_abs O) (n_sign O);
    n_sign := fun x => d_const (n_sign O (fst x));
    n_exp := d_lift (n_exp O) (n_exp O);
    n_log := d_lift (n_log O) (fun a => div (c O 1) a);
    n_tanh := d_lift (n_tanh O) (fun a => sub (c O 1) (mul (n_tanh O a) (n_tanh O a)));
    n_atanh := d_lift (n_atanh O) (fun a => div (c O 1) (sub (c O 1) (mul a a)));
    n_softplus := d_lift (n_softplus O) (fun a => div (c O 1) (add (c O 1) (n_exp O (n_neg O a))));
    n_log1p := d_lift (n_log1p O) (fun a => div (c O 1) (add (c O 1) a));
    n_expm1 := d_lift (n_expm1 O) (n_exp O);
    n_sqrt := d_lift (n_sqrt O) (fun a => div (c O 1) (mul (c O 2) (n_sqrt O a)));
    n_lgamma := d_lift (n_lgamma O) (fun _ => div (c O 0) (c O 0));
    n_pi := d_const (n_pi O);
    n_leb := fun x y => n_leb O (fst x) (fst y);
    n_ltb := fun x y => n_ltb O (fst x) (fst y);
    n_eqb := fun x y => n_eqb O (fst x) (fst y);
    n_ofZ := fun z => d_const (n_ofZ O z) |}.
End Dual.
