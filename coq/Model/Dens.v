(* C05 -- the named distribution families of flowjax/distributions.py, AS THE CODE BUILDS THEM:
   a standard (loc 0, scale 1) base whose _log_prob is a jax.scipy.stats logpdf (written out below in
   jax's own operation order), pushed through the bijection the class composes (Affine(loc, scale),
   Chain[Affine, Exp], Scale(1/rate), TriangularAffine(cholesky)), summed over the event, then the
   `where(isnan(lps), -inf, lps)` of AbstractDistribution.log_prob.  Mixtures: VmapMixture.
   Executable, generic over NumOps, no proofs, no Reals.

   -inf and NaN are VALUES here: [ext A] is the IEEE class layer (finite | +inf | -inf | nan).  Inputs are
   [ext A] too, so the behaviour at non-finite evaluation points is part of the model. *)
From Coq Require Import List ZArith Bool Arith.
From FJ Require Import Model.Num.
Import ListNotations.

Inductive ext (A : Type) : Type := Fin (a : A) | PInf | NInf | NaN.
Arguments Fin {A} a. Arguments PInf {A}. Arguments NInf {A}. Arguments NaN {A}.

(* the sampler primitive of jax.random each standard family calls *)
Inductive prim := PrNormal | PrUniform | PrGumbel | PrCauchy | PrT | PrLaplace | PrExponential | PrLogistic.
Inductive fam := FNormal | FLogNormal | FUniform | FGumbel | FCauchy | FStudentT | FLaplace | FExponential | FLogistic.
Definition sampler_prim (f : fam) : prim :=
  match f with
  | FNormal => PrNormal | FLogNormal => PrNormal | FUniform => PrUniform | FGumbel => PrGumbel
  | FCauchy => PrCauchy | FStudentT => PrT | FLaplace => PrLaplace | FExponential => PrExponential
  | FLogistic => PrLogistic
  end.

(* ---------- shapes: jnp.broadcast_shapes / jnp.broadcast_arrays by NumPy's index rule ----------
   shapes are given REVERSED (last axis first); data is flat, C order *)
Fixpoint bshape_rev (a b : list nat) : list nat :=
  match a, b with
  | [], _ => b
  | _, [] => a
  | x :: a', y :: b' => (if x =? 1 then y else x) :: bshape_rev a' b'
  end.
Definition prodn (s : list nat) : nat := fold_right Nat.mul 1 s.
(* flat source index of the element that lands at flat target index i: unravel i in the target shape,
   right-align with the source shape, pin size-1 (and missing) source axes to 0, ravel in the source *)
Fixpoint bproj (rs rt : list nat) (i stride : nat) : nat :=
  match rt with
  | [] => 0
  | t :: rt' =>
      match rs with
      | [] => 0
      | s :: rs' => (if s =? 1 then 0 else (i mod t) * stride) + bproj rs' rt' (i / t) (stride * s)
      end
  end.

Section Dens.
  Context {A : Type} (O : NumOps A).
  Local Notation "a +. b" := (n_add O a b) (at level 50, left associativity).
  Local Notation "a -. b" := (n_sub O a b) (at level 50, left associativity).
  Local Notation "a *. b" := (n_mul O a b) (at level 40, left associativity).
  Local Notation "a /. b" := (n_div O a b) (at level 40, left associativity).
  Local Notation "-. a" := (n_neg O a) (at level 35, right associativity).
  Local Notation "a <. b" := (n_ltb O a b) (at level 70).
  Local Notation k := (c O).

  Definition bcast (rs rt : list nat) (d : list A) : list A :=
    map (fun i => nth (bproj rs rt i 1) d (k 0)) (seq 0 (prodn rt)).

  (* ---------- IEEE class arithmetic, only the operations the code paths use ---------- *)
  (* class of a computed value: over R every value is finite (a - a = 0 < 1); with floats an operation on finite
     arguments can overflow to +-inf (or give nan), and inf - inf = nan fails the test *)
  Definition fin (a : A) : ext A :=
    if (a -. a) <. k 1 then Fin a else if k 0 <. a then PInf else if a <. k 0 then NInf else NaN.
  Definition e_neg (x : ext A) : ext A :=
    match x with Fin a => Fin (-. a) | PInf => NInf | NInf => PInf | NaN => NaN end.
  Definition e_add (x y : ext A) : ext A :=
    match x, y with
    | NaN, _ | _, NaN => NaN
    | Fin a, Fin b => fin (a +. b)
    | PInf, NInf | NInf, PInf => NaN
    | PInf, _ | _, PInf => PInf
    | NInf, _ | _, NInf => NInf
    end.
  Definition e_sum (l : list (ext A)) : ext A := fold_left e_add l (Fin (k 0)).   (* jnp .sum() *)
  Definition e_subf (x : ext A) (b : A) : ext A := match x with Fin a => fin (a -. b) | _ => x end.
  Definition e_divf (x : ext A) (s : A) : ext A :=
    match x with
    | Fin a => fin (a /. s)
    | PInf => if s <. k 0 then NInf else PInf
    | NInf => if s <. k 0 then PInf else NInf
    | NaN => NaN
    end.
  Definition e_log (x : ext A) : ext A :=      (* jnp.log: log 0 = -inf, log of a negative = nan *)
    match x with
    | Fin a => if k 0 <. a then Fin (n_log O a) else if a <. k 0 then NaN else NInf
    | PInf => PInf | NInf => NaN | NaN => NaN
    end.
  (* jnp.where(jnp.isnan(lps), -jnp.inf, lps) *)
  Definition nan_to_ninf (x : ext A) : ext A := match x with NaN => NInf | _ => x end.

  Fixpoint map2 {X Y Z} (f : X -> Y -> Z) (a : list X) (b : list Y) : list Z :=
    match a, b with x :: a', y :: b' => f x y :: map2 f a' b' | _, _ => [] end.
  Fixpoint map3 {X Y Z W} (f : X -> Y -> Z -> W) (a : list X) (b : list Y) (d : list Z) : list W :=
    match a, b, d with x :: a', y :: b', z :: d' => f x y z :: map3 f a' b' d' | _, _, _ => [] end.

  (* ---------- standard bases: jax.scipy.stats.<fam>.logpdf(z) at loc = 0, scale = 1 ---------- *)
  Definition two_pi : A := k 2 *. n_pi O.
  (* norm: (log(2 pi * scale^2) + (z - loc)^2 / scale^2) / (-2) *)
  Definition norm_lp (z : ext A) : ext A :=
    match z with
    | Fin z => fin ((n_log O (two_pi *. k 1) +. (z *. z) /. k 1) /. k (-2))
    | PInf | NInf => NInf | NaN => NaN
    end.
  (* uniform: where(z > loc + scale or z < loc, -inf, -log(scale)) ; nan compares false both ways *)
  Definition unif_lp (z : ext A) : ext A :=
    match z with
    | Fin z => if (k 1 <. z) || (z <. k 0) then NInf else Fin (-. n_log O (k 1))
    | PInf | NInf => NInf
    | NaN => Fin (-. n_log O (k 1))
    end.
  (* expon: where(z < loc, -inf, -(z / scale + log scale)) *)
  Definition expon_lp (z : ext A) : ext A :=
    match z with
    | Fin z => if z <. k 0 then NInf else fin (-. (z +. n_log O (k 1)))
    | PInf | NInf => NInf | NaN => NaN
    end.
  (* _StandardGumbel._log_prob: -(x + jnp.exp(-x)).sum()  -- the negation is applied to the SUM *)
  Definition gumbel_term (z : ext A) : ext A :=
    match z with
    | Fin z => fin (z +. n_exp O (-. z))
    | PInf => PInf | NInf => NaN | NaN => NaN
    end.
  (* cauchy: -(log(pi * scale) + log1p(z * z)) *)
  Definition cauchy_lp (z : ext A) : ext A :=
    match z with
    | Fin z => fin (-. (n_log O (n_pi O *. k 1) +. n_log1p O (z *. z)))
    | PInf | NInf => NInf | NaN => NaN
    end.
  (* laplace: -(|z| / scale + log(2 * scale)) *)
  Definition laplace_lp (z : ext A) : ext A :=
    match z with
    | Fin z => fin (-. (n_abs O z +. n_log O (k 2 *. k 1)))
    | PInf | NInf => NInf | NaN => NaN
    end.
  (* lax logaddexp(a, b) = max(a, b) + log1p(exp(-|a - b|)) (finite arguments) *)
  Definition logaddexp (a b : A) : A := nmax O a b +. n_log1p O (n_exp O (-. n_abs O (a -. b))).
  (* logistic: (-2) * logaddexp(z/2, -(z/2)) - log(scale) *)
  Definition logistic_lp (z : ext A) : ext A :=
    match z with
    | Fin z => let h := z /. k 2 in fin ((-. k 2) *. logaddexp h (-. h) -. n_log O (k 1))
    | PInf | NInf => NInf | NaN => NaN
    end.
  (* t: -( lgamma(df/2) + log(scale^2 * pi * df)/2 - lgamma(df/2 + 1/2) + (df/2 + 1/2) * log1p(z^2/df) ) *)
  Definition t_lp (df : A) (z : ext A) : ext A :=
    match z with
    | Fin z =>
        let d2 := df /. k 2 in
        let d12 := d2 +. half O in
        let nrm := (n_lgamma O d2 +. n_log O ((k 1 *. k 1) *. n_pi O *. df) /. k 2) -. n_lgamma O d12 in
        fin (-. (nrm +. d12 *. n_log1p O ((z *. z) /. df)))
    | PInf | NInf => NInf | NaN => NaN
    end.

  (* the standard distributions' _log_prob: elementwise logpdf, then .sum() *)
  Definition std_lp (f : fam) (dfs : list A) (zs : list (ext A)) : ext A :=
    match f with
    | FNormal | FLogNormal => e_sum (map norm_lp zs)
    | FUniform => e_sum (map unif_lp zs)
    | FGumbel => e_neg (e_sum (map gumbel_term zs))
    | FCauchy => e_sum (map cauchy_lp zs)
    | FStudentT => e_sum (map2 t_lp dfs zs)
    | FLaplace => e_sum (map laplace_lp zs)
    | FExponential => e_sum (map expon_lp zs)
    | FLogistic => e_sum (map logistic_lp zs)
    end.

  (* ---------- bijections (inverse_and_log_det) ---------- *)
  (* Affine.inverse: (y - loc) / scale ;  log det: -jnp.log(jnp.abs(scale)).sum() *)
  Definition affine_inv1 (loc scale : A) (x : ext A) : ext A := e_divf (e_subf x loc) scale.
  Definition scale_ldj (scales : list A) : ext A :=
    fin (-. sum O (map (fun s => n_log O (n_abs O s)) scales)).
  (* Scale.inverse: y / scale *)
  Definition scale_inv1 (scale : A) (x : ext A) : ext A := e_divf x scale.
  (* Exp.inverse_and_log_det: x = log y, -x.sum() *)
  Definition exp_inv (ys : list (ext A)) : list (ext A) * ext A :=
    let xs := map e_log ys in (xs, e_neg (e_sum xs)).

  (* AbstractTransformed._log_prob = base._log_prob(z) + log_abs_det, per class;
     params already broadcast to the event shape and flattened *)
  Definition locscale_raw (f : fam) (dfs locs scales : list A) (xs : list (ext A)) : ext A :=
    e_add (std_lp f dfs (map3 affine_inv1 locs scales xs)) (scale_ldj scales).
  (* LogNormal: Chain([Affine(loc, scale), Exp]).inverse_and_log_det: reversed order, log dets
     accumulated from the integer 0 *)
  Definition lognormal_raw (locs scales : list A) (xs : list (ext A)) : ext A :=
    let '(x1, ld_exp) := exp_inv xs in
    let ld := e_add (e_add (Fin (k 0)) ld_exp) (scale_ldj scales) in
    e_add (std_lp FLogNormal [] (map3 affine_inv1 locs scales x1)) ld.
  (* Exponential: Scale(1 / rate) *)
  Definition exponential_scales (rates : list A) : list A := map (fun r => k 1 /. r) rates.
  Definition scale_raw (f : fam) (scales : list A) (xs : list (ext A)) : ext A :=
    e_add (std_lp f [] (map2 scale_inv1 scales xs)) (scale_ldj scales).

  (* the class as the user calls it: constructor arguments -> _log_prob.  p1 p2 p3 are the flattened,
     broadcast constructor arrays: (loc, scale, -) | Uniform (minval, maxval, -) | StudentT (loc, scale, df)
     | Exponential (rate, -, -) *)
  Definition uniform_scales (minv maxv : list A) : list A := map2 (fun lo hi => hi -. lo) minv maxv.
  Definition fam_raw (f : fam) (p1 p2 p3 : list A) (xs : list (ext A)) : ext A :=
    match f with
    | FLogNormal => lognormal_raw p1 p2 xs
    | FUniform => locscale_raw FUniform [] p1 (uniform_scales p1 p2) xs
    | FExponential => scale_raw FExponential (exponential_scales p1) xs
    | FStudentT => locscale_raw FStudentT p3 p1 p2 xs
    | _ => locscale_raw f [] p1 p2 xs
    end.
  (* AbstractDistribution.log_prob *)
  Definition fam_log_prob (f : fam) (p1 p2 p3 : list A) (xs : list (ext A)) : ext A :=
    nan_to_ninf (fam_raw f p1 p2 p3 xs).
  (* the same at the level of the stored bijection parameters (loc, scale as unwrapped from the object):
     Uniform (loc, scale), Exponential (scale) *)
  Definition obj_raw (f : fam) (locs scales dfs : list A) (xs : list (ext A)) : ext A :=
    match f with
    | FLogNormal => lognormal_raw locs scales xs
    | FExponential => scale_raw FExponential scales xs
    | _ => locscale_raw f dfs locs scales xs
    end.
  Definition obj_log_prob (f : fam) (locs scales dfs : list A) (xs : list (ext A)) : ext A :=
    nan_to_ninf (obj_raw f locs scales dfs xs).

  (* constructors with shapes: jnp.broadcast_shapes + jnp.broadcast_arrays of the arguments.
     Each argument is (reversed shape, flat data); result (reversed event shape, broadcast flat arrays) *)
  Definition ctor2 (a b : list nat * list A) : list nat * (list A * list A) :=
    let rt := bshape_rev (fst a) (fst b) in (rt, (bcast (fst a) rt (snd a), bcast (fst b) rt (snd b))).
  Definition ctor3 (a b d : list nat * list A) : list nat * (list A * (list A * list A)) :=
    let rt := bshape_rev (bshape_rev (fst a) (fst b)) (fst d) in
    (rt, (bcast (fst a) rt (snd a), (bcast (fst b) rt (snd b), bcast (fst d) rt (snd d)))).
  (* dist.log_prob(x) for x of exactly the event shape, from the raw constructor arguments *)
  Definition class_log_prob (f : fam) (a b d : list nat * list A) (xs : list (ext A)) : ext A :=
    match f with
    | FStudentT => let '(_, (p1, (p2, p3))) := ctor3 a b d in fam_log_prob f p1 p2 p3 xs
    | FExponential => fam_log_prob f (snd a) [] [] xs
    | _ => let '(_, (p1, p2)) := ctor2 a b in fam_log_prob f p1 p2 [] xs
    end.

  (* accessors (dist.loc / scale / df / rate / minval / maxval) as functions of the broadcast
     constructor arrays; the SoftPlus reparameterisation of scale/df is the identity on values (C11) *)
  Definition acc_loc (f : fam) (p1 p2 : list A) : list A := p1.                     (* bijection.loc *)
  Definition acc_scale (f : fam) (p1 p2 : list A) : list A :=
    match f with FUniform => uniform_scales p1 p2 | _ => p2 end.
  Definition acc_minval (p1 p2 : list A) : list A := p1.
  Definition acc_maxval (p1 p2 : list A) : list A := map2 (fun lo s => lo +. s) p1 (uniform_scales p1 p2).
  Definition acc_rate (p1 : list A) : list A := map (fun s => k 1 /. s) (exponential_scales p1).

  (* ---------- samplers: push the named primitive's draw forward through the same map ---------- *)
  Definition affine_fwd1 (loc scale z : A) : A := z *. scale +. loc.   (* Affine.transform: x * scale + loc *)
  Definition fam_sample (f : fam) (p1 p2 : list A) (draw : list A) : list A :=
    match f with
    | FLogNormal => map (n_exp O) (map3 affine_fwd1 p1 p2 draw)
    | FUniform => map3 affine_fwd1 p1 (uniform_scales p1 p2) draw
    | FExponential => map2 (fun s z => z *. s) (exponential_scales p1) draw
    | _ => map3 affine_fwd1 p1 p2 draw
    end.
  Definition obj_sample (f : fam) (locs scales : list A) (draw : list A) : list A :=
    match f with
    | FLogNormal => map (n_exp O) (map3 affine_fwd1 locs scales draw)
    | FExponential => map2 (fun s z => z *. s) scales draw
    | _ => map3 affine_fwd1 locs scales draw
    end.

  (* ---------- VmapMixture ---------- *)
  Definition maxl (x : A) (l : list A) : A := fold_left (nmax O) l x.
  (* jax.nn.log_softmax: shifted = x - max x; shifted - log(sum(exp(shifted))) *)
  Definition log_softmax (l : list A) : list A :=
    match l with
    | [] => []
    | x :: t =>
        let m := maxl x t in
        let sh := map (fun v => v -. m) l in
        let lse := n_log O (sum O (map (n_exp O) sh)) in
        map (fun s => s -. lse) sh
    end.
  Definition is_nan (x : ext A) : bool := match x with NaN => true | _ => false end.
  Definition is_pinf (x : ext A) : bool := match x with PInf => true | _ => false end.
  Fixpoint fins (l : list (ext A)) : list A :=
    match l with [] => [] | Fin a :: t => a :: fins t | _ :: t => fins t end.
  (* jax.scipy.special.logsumexp: amax = max(a) (0 if not finite); log(|sum(exp(a - amax))|) + amax *)
  Definition logsumexp (l : list (ext A)) : ext A :=
    if existsb is_nan l then NaN
    else if existsb is_pinf l then PInf
    else match fins l with
         | [] => NInf
         | x :: t =>
             let m := maxl x t in
             let term e := match e with Fin a => n_exp O (a -. m) | _ => k 0 end in
             fin (n_log O (n_abs O (sum O (map term l))) +. m)
         end.
  (* log_normalized_weights = log_softmax(log(weights)); _log_prob = logsumexp(log_probs + lnw) where
     log_probs are the components' RAW _log_prob (before the nan -> -inf of log_prob) *)
  Definition mixture_raw (lps : list (ext A)) (ws : list A) : ext A :=
    let lnw := log_softmax (map (n_log O) ws) in
    logsumexp (map2 (fun lp w => e_add lp (Fin w)) lps lnw).
  Definition mixture_log_prob (lps : list (ext A)) (ws : list A) : ext A := nan_to_ninf (mixture_raw lps ws).
  (* a mixture of one family: per component the broadcast parameter arrays *)
  Definition fam_mixture_log_prob (f : fam) (comps : list (list A * (list A * list A))) (ws : list A)
             (xs : list (ext A)) : ext A :=
    mixture_log_prob (map (fun p => obj_raw f (fst p) (fst (snd p)) (snd (snd p)) xs) comps) ws.

  (* ---------- MultivariateNormal: TriangularAffine(loc, L), L lower triangular (rows) ---------- *)
  (* solve_triangular(L, b, lower=True) by forward substitution; row i uses its first i entries and L[i][i] *)
  Fixpoint tri_solve (rows : list (list A)) (b acc : list A) : list A :=
    match rows, b with
    | r :: rs, bi :: bs =>
        tri_solve rs bs (acc ++ [(bi -. dot O r acc) /. nth (length acc) r (k 0)])
    | _, _ => acc
    end.
  Fixpoint diag_from (i : nat) (rows : list (list A)) : list A :=
    match rows with [] => [] | r :: rs => nth i r (k 0) :: diag_from (S i) rs end.
  Definition mvn_z (rows : list (list A)) (loc x : list A) : list A :=
    tri_solve rows (map2 (fun xi li => xi -. li) x loc) [].
  Definition mvn_raw (rows : list (list A)) (loc x : list A) : ext A :=
    e_add (std_lp FNormal [] (map fin (mvn_z rows loc x))) (scale_ldj (diag_from 0 rows)).
  Definition mvn_log_prob (rows : list (list A)) (loc x : list A) : ext A := nan_to_ninf (mvn_raw rows loc x).
  (* TriangularAffine.transform: triangular @ z + loc ;  covariance accessor: L @ L.T *)
  Definition mvn_sample (rows : list (list A)) (loc z : list A) : list A :=
    map2 (fun r li => dot O r z +. li) rows loc.
  Definition mvn_cov (rows : list (list A)) : list (list A) := map (fun r => map (fun r' => dot O r r') rows) rows.
End Dens.
