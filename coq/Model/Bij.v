(* Bijection expression trees and their two semantics.
     sig_of b        what the constructors compute/raise: (shape, cond_shape) or Err Ctor
     run b d x c     code-shaped: the checks of _unwrap_check_and_cast at every node entry, then exactly
                     the index arithmetic of flowjax/bijections/{chain,concatenate,jax_transforms,utils}.py
     den b d x c     definition-shaped: what the documentation says the combinator means (total, no checks)
   Executable, no proofs.  Generic over the carrier (NumOps); leaves are shared by run and den. *)
From Coq Require Import List ZArith Bool Arith.
From FJ Require Import Model.Num Model.Tensor.
Import ListNotations.

Inductive dir := Fwd | Inv.
Definition flipd (d : dir) : dir := match d with Fwd => Inv | Inv => Fwd end.
Inductive meth := MTransform | MInverse | MTransformLD | MInverseLD.
Definition meth_dir (m : meth) : dir := match m with MTransform | MTransformLD => Fwd | _ => Inv end.
Definition meth_ld (m : meth) : bool := match m with MTransformLD | MInverseLD => true | _ => false end.

(* embedding networks used by the correspondence check: c * z ; c[:k] *)
Inductive embed := EMul (z : Z) | ETake (k : nat).

Section B.
  Context {A : Type}.
  Notation tens := (tensor A).

  Inductive leaf :=
  | LOpaque (s : shape) (cs : option shape)  (* Identity(s) (cs = None); in C13 any class whose values are not compared *)
  | LLoc (loc : tens)
  | LScale (sc : tens)
  | LAffine (loc sc : tens)
  | LFlip (s : shape)
  | LPerm (s : shape) (p : list nat)          (* Permute: p = the permutation array flattened (C order) *)
  | LAddCond (s : shape) (w : tens).          (* AdditiveCondition(lambda c: (c * w).sum(), s, w.shape) *)

  Inductive bij :=
  | Leaf (l : leaf)
  | Chain (bs : list bij)
  | Scan (bs : list bij)                      (* the stacked layers, unstacked by the serialiser *)
  | Invert (b : bij)
  | Concat (axis : Z) (bs : list bij)
  | Stack (axis : Z) (bs : list bij)
  | Vmap (n : nat) (mapped : bool) (cax : option Z) (bs : list bij)
      (* mapped = false: bs = [b], parameters broadcast; mapped = true: bs = the n parameter slices *)
  | Partial (ix : list sel) (s : shape) (b : bij)
  | Reshape (s cs : option shape) (b : bij)
  | EmbedCond (e : embed) (raw : shape) (b : bij).

  Definition sig := (shape * option shape)%type.
  Definition sig_eqb (a b : sig) : bool := shape_eqb (fst a) (fst b) && oshape_eqb (snd a) (snd b).

  (* ---------- flowjax/utils.py ---------- *)
  Fixpoint somes {X} (l : list (option X)) : list X :=
    match l with [] => [] | Some x :: t => x :: somes t | None :: t => somes t end.
  Definition merge_cond_shapes (l : list (option shape)) : res (option shape) :=
    match l with
    | [] => Err Ctor
    | _ => match somes l with
           | [] => Ok None
           | s0 :: r => if forallb (shape_eqb s0) r then Ok (Some s0) else Err Ctor
           end
    end.
  Definition check_shapes_match (l : list shape) : bool :=
    match l with [] => true | s0 :: _ => forallb (shape_eqb s0) l end.

  (* ---------- constructors ---------- *)
  Definition wf_t (t : tens) : bool := has_shape (tshape t) t.
  Definition is_perm (p : list nat) : bool :=
    forallb (fun i => existsb (Nat.eqb i) p) (seq 0 (length p)).
  Definition leaf_sig (l : leaf) : res sig :=
    match l with
    | LOpaque s cs => Ok (s, cs)
    | LLoc t => if wf_t t then Ok (tshape t, None) else Err Ctor
    | LScale t => if wf_t t then Ok (tshape t, None) else Err Ctor
    | LAffine loc sc =>
        if wf_t loc && wf_t sc && shape_eqb (tshape loc) (tshape sc) then Ok (tshape sc, None) else Err Ctor
    | LFlip s => Ok (s, None)
    | LPerm s p => if Nat.eqb (length p) (prodn s) && is_perm p then Ok (s, None) else Err Ctor
    | LAddCond s w => if wf_t w then Ok (s, Some (tshape w)) else Err Ctor
    end.

  Definition zk (k : nat) : option Z := Some (Z.of_nat k).
  (* Chain.__init__ *)
  Definition chain_sig (sigs : list sig) : res sig :=
    if check_shapes_match (map fst sigs)
    then match sigs with
         | [] => Err Ctor                      (* unwrapped[0]: IndexError *)
         | sg0 :: _ => do cs <- merge_cond_shapes (map snd sigs); Ok (fst sg0, cs)
         end
    else Err Ctor.
  (* Scan / mapped Vmap: the layers are slices of one stacked module, so they share one signature *)
  Definition same_sig (sigs : list sig) : res sig :=
    match sigs with
    | [] => Err Unsupported
    | sg0 :: _ => if forallb (sig_eqb sg0) sigs then Ok sg0 else Err Unsupported
    end.
  (* Concatenate.__init__ with _argcheck_shapes: (axis used by the shape algebra, shape, split_idxs) *)
  Definition off_axis (s : shape) (k : nat) : shape := pslice s None (zk k) ++ pslice s (zk (k + 1)) None.
  Definition concat_info (axis : Z) (shapes : list shape) : res (nat * shape * list nat) :=
    match shapes with
    | [] => Err Ctor                           (* shapes[0]: IndexError *)
    | s0 :: _ =>
        match py_range_index (length s0) axis with
        | None => Err Ctor                     (* range(len(shapes[0]))[axis]: IndexError *)
        | Some k =>
            if forallb (fun s => shape_eqb (off_axis s k) (off_axis s0 k)) shapes
            then match mapo (fun s => nth_error s k) shapes with
                 | None => Err Ctor            (* s[axis]: IndexError *)
                 | Some sizes =>
                     Ok (k, pslice s0 None (zk k) ++ [sumn sizes] ++ pslice s0 (zk (k + 1)) None,
                         accumulate (removelast sizes))
                 end
            else Err Ctor
        end
    end.
  Definition concat_sig (axis : Z) (sigs : list sig) : res sig :=
    do info <- concat_info axis (map fst sigs);
    do cs <- merge_cond_shapes (map snd sigs);
    Ok (snd (fst info), cs).
  (* Stack.__init__ *)
  Definition stack_info (axis : Z) (shapes : list shape) : res (nat * shape) :=
    if check_shapes_match shapes
    then match shapes with
         | [] => Err Ctor
         | s0 :: _ =>
             match py_range_index (length s0 + 1) axis with
             | None => Err Ctor
             | Some k => Ok (k, pslice s0 None (zk k) ++ [length shapes] ++ pslice s0 (zk k) None)
             end
         end
    else Err Ctor.
  Definition stack_sig (axis : Z) (sigs : list sig) : res sig :=
    do info <- stack_info axis (map fst sigs);
    do cs <- merge_cond_shapes (map snd sigs);
    Ok (snd info, cs).
  (* Stack.__init__ before fix ed3b7c8: the raw (possibly negative) axis in the python slices *)
  Definition stack_shape_old (axis : Z) (s0 : shape) (n : nat) : shape :=
    pslice s0 None (Some axis) ++ [n] ++ pslice s0 (Some axis) None.
  (* Vmap.get_cond_shape *)
  Definition vmap_cshape (n : nat) (cs : option shape) (cax : option Z) : res (option shape) :=
    match cs, cax with
    | None, _ => Ok None
    | Some s, None => Ok (Some s)
    | Some s, Some a =>
        match py_range_index (length s + 1) a with
        | None => Err Ctor
        | Some k => Ok (Some (pslice s None (zk k) ++ [n] ++ pslice s (zk k) None))
        end
    end.
  (* ... before fix 88c3ee9 *)
  Definition vmap_cshape_old (n : nat) (s : shape) (a : Z) : shape :=
    pslice s None (Some a) ++ [n] ++ pslice s (Some a) None.
  Definition vmap_sig (n : nat) (mapped : bool) (cax : option Z) (sigs : list sig) : res sig :=
    do sg0 <- (if mapped
               then (if Nat.eqb (length sigs) n then same_sig sigs else Err Unsupported)
               else match sigs with [sg0] => Ok sg0 | _ => Err Unsupported end);
    match snd sg0, cax with
    | None, Some _ => Err Unsupported   (* a condition axis for an unconditional bijection: not modelled *)
    | _, _ => do cs <- vmap_cshape n (snd sg0) cax; Ok (n :: fst sg0, cs)
    end.
  (* Partial.__check_init__ *)
  Definition partial_sig (ix : list sel) (s : shape) (sgb : sig) : res sig :=
    if idx_supported ix
    then match resolve_idx ix s with
         | None => Err Ctor
         | Some rs => if shape_eqb (idx_shape rs s) (fst sgb) then Ok (s, snd sgb) else Err Ctor
         end
    else Err Unsupported.
  (* Reshape.__init__ + __check_init__ *)
  Definition reshape_sig (s cs : option shape) (sgb : sig) : res sig :=
    let s' := match s with Some x => x | None => fst sgb end in
    let cs' := match cs with Some x => Some x | None => snd sgb end in
    match snd sgb, cs' with
    | None, Some _ => Err Ctor
    | _, _ =>
        if Nat.eqb (prodn s') (prodn (fst sgb))
        then match cs', snd sgb with
             | Some a, Some b => if Nat.eqb (prodn a) (prodn b) then Ok (s', cs') else Err Ctor
             | _, _ => Ok (s', cs')
             end
        else Err Ctor
    end.
  (* EmbedCondition.__init__ checks nothing; a net whose output the child rejects is not modelled *)
  Definition embed_shape (e : embed) (raw : shape) : option shape :=
    match e with
    | EMul _ => Some raw
    | ETake k => match raw with n :: r => Some (Nat.min k n :: r) | [] => None end
    end.
  Definition embed_sig (e : embed) (raw : shape) (sgb : sig) : res sig :=
    match embed_shape e raw with
    | None => Err Unsupported
    | Some es => match snd sgb with
                 | Some csb => if shape_eqb es csb then Ok (fst sgb, Some raw) else Err Unsupported
                 | None => Ok (fst sgb, Some raw)
                 end
    end.

  Fixpoint sig_of (b : bij) : res sig :=
    match b with
    | Leaf l => leaf_sig l
    | Chain bs => do sigs <- mapr sig_of bs; chain_sig sigs
    | Scan bs => do sigs <- mapr sig_of bs; same_sig sigs
    | Invert b' => sig_of b'
    | Concat axis bs => do sigs <- mapr sig_of bs; concat_sig axis sigs
    | Stack axis bs => do sigs <- mapr sig_of bs; stack_sig axis sigs
    | Vmap n mapped cax bs => do sigs <- mapr sig_of bs; vmap_sig n mapped cax sigs
    | Partial ix s b' => do sgb <- sig_of b'; partial_sig ix s sgb
    | Reshape s cs b' => do sgb <- sig_of b'; reshape_sig s cs sgb
    | EmbedCond e raw b' => do sgb <- sig_of b'; embed_sig e raw sgb
    end.
  Definition shape_d (b : bij) : shape := match sig_of b with Ok sg => fst sg | Err _ => [] end.
  Definition cshape_d (b : bij) : option shape := match sig_of b with Ok sg => snd sg | Err _ => None end.

  (* the constructor functions: Err where the real constructor raises *)
  Definition mk (b : bij) : res bij := do _ <- sig_of b; Ok b.
  Definition mk_chain bs := mk (Chain bs).
  Definition mk_concat axis bs := mk (Concat axis bs).
  Definition mk_stack axis bs := mk (Stack axis bs).
  Definition mk_vmap n mapped cax bs := mk (Vmap n mapped cax bs).
  Definition mk_partial ix s b := mk (Partial ix s b).
  Definition mk_reshape s cs b := mk (Reshape s cs b).

  (* ---------- leaves (shared by run and den) ---------- *)
  Context (O : NumOps A).
  Definition zero : A := n_ofZ O 0%Z.
  Definition gather (p : list nat) (l : list A) : list A := map (fun i => nth i l zero) p.
  Fixpoint index_of (i : nat) (p : list nat) : nat :=
    match p with [] => 0 | a :: t => if Nat.eqb a i then 0 else S (index_of i t) end.
  (* jnp.argsort of a permutation *)
  Definition argsort (p : list nat) : list nat := map (fun i => index_of i p) (seq 0 (length p)).
  Definition logabs_sum (sc : tens) : A := tsum O (tmap (fun a => n_log O (n_abs O a)) sc).
  Definition cond_val (w : tens) (c : option tens) : A :=
    match c with Some cv => tsum O (tmap2 (n_mul O) cv w) | None => zero end.
  Definition leaf_den (l : leaf) (d : dir) (x : tens) (c : option tens) : tens * A :=
    match l with
    | LOpaque _ _ => (x, zero)
    | LLoc loc => (match d with Fwd => tmap2 (n_add O) x loc | Inv => tmap2 (n_sub O) x loc end, zero)
    | LScale sc =>
        match d with
        | Fwd => (tmap2 (n_mul O) x sc, logabs_sum sc)
        | Inv => (tmap2 (n_div O) x sc, n_neg O (logabs_sum sc))
        end
    | LAffine loc sc =>
        match d with
        | Fwd => (tmap2 (n_add O) (tmap2 (n_mul O) x sc) loc, logabs_sum sc)
        | Inv => (tmap2 (n_div O) (tmap2 (n_sub O) x loc) sc, n_neg O (logabs_sum sc))
        end
    | LFlip _ => (tflip x, zero)
    | LPerm s p =>
        (unflatten s (gather (match d with Fwd => p | Inv => argsort p end) (flatten x)), zero)
    | LAddCond _ w =>
        let v := cond_val w c in
        (tmap (fun a => match d with Fwd => n_add O a v | Inv => n_sub O a v end) x, zero)
    end.
  Definition leaf_run (l : leaf) (d : dir) (x : tens) (c : option tens) : res (tens * tens) :=
    match l, c with
    | LAddCond _ _, None => Err Internal
    | _, _ => let r := leaf_den l d x c in Ok (fst r, Sc (snd r))
    end.

  Definition embed_apply (e : embed) (cv : tens) : option tens :=
    match e with
    | EMul z => Some (tmap (fun a => n_mul O a (n_ofZ O z)) cv)
    | ETake k => match cv with Ar l => Some (Ar (firstn k l)) | Sc _ => None end
    end.

  (* ---------- _unwrap_check_and_cast ---------- *)
  Definition check (sg : sig) (x : tens) (c : option tens) : res unit :=
    if negb (has_shape (fst sg) x) then Err BadX
    else match snd sg, c with
         | Some _, None => Err NoCond
         | Some cs, Some cv => if has_shape cs cv then Ok tt else Err BadCond
         | None, _ => Ok tt
         end.

  (* one step of Chain / Scan: x, ld -> child(x), ld + ld_i.sum() *)
  Definition chain_step (f : tens -> res (tens * tens)) (acc : res (tens * A)) : res (tens * A) :=
    do st <- acc; do r <- f (fst st); Ok (fst r, n_add O (snd st) (tsum O (snd r))).
  (* the per-slice conditions of a vmapped call (in_axes_condition) *)
  Definition vmap_conds (n : nat) (cshape : option shape) (cax : option Z) (c : option tens)
    : res (list (option tens)) :=
    match c with
    | None => Ok (repeat None n)
    | Some cv =>
        match cax with
        | None => Ok (repeat (Some cv) n)
        | Some a =>
            match cshape with
            | None => Err Internal
            | Some cs =>   (* jax.vmap canonicalises the axis against the rank of the condition *)
                match np_axis (length cs) a with
                | None => Err Internal
                | Some k => if Nat.eqb (nth k cs 0) n
                            then Ok (map (fun i => Some (tindex k i cv)) (seq 0 n))
                            else Err Internal
                end
            end
        end
    end.

  Fixpoint run (b : bij) (d : dir) (x : tens) (c : option tens) {struct b} : res (tens * tens) :=
    do sg <- sig_of b;
    do _ <- check sg x c;
    match b with
    | Leaf l => leaf_run l d x c
    | Chain bs | Scan bs =>
        (* forward: for b in bijections; inverse: for b in reversed(bijections) / scan(reverse=True) *)
        let init : res (tens * A) := Ok (x, zero) in
        do r <- match d with
                | Fwd => fold_left (fun acc b' => chain_step (fun y => run b' d y c) acc) bs init
                | Inv => fold_right (fun b' acc => chain_step (fun y => run b' d y c) acc) init bs
                end;
        Ok (fst r, Sc (snd r))
    | Invert b' => run b' (flipd d) x c
    | Concat axis bs =>
        do sigs <- mapr sig_of bs;
        do info <- concat_info axis (map fst sigs);
        (* jnp.array_split(x, self.split_idxs, axis=self.axis): numpy normalises the axis on x.ndim *)
        do k <- of_opt Internal (np_axis (length (fst sg)) axis);
        let parts := array_split k (nth k (fst sg) 0) (snd info) x in
        do outs <- map2r (fun b' p => run b' d p c) bs parts;
        do y <- of_opt Internal (tcat k (map fst outs));
        do ld <- of_opt Internal (py_sum O (map snd outs));
        Ok (y, ld)
    | Stack axis bs =>
        do k <- of_opt Internal (np_axis (length (fst sg)) axis);
        (* _split_and_squeeze: jnp.split(x, len(bijections), axis) then squeeze(axis) *)
        do parts <- of_opt Internal (split_eq k (nth k (fst sg) 0) (length bs) x);
        do sq <- of_opt Internal (mapo (tsqueeze k) parts);
        do outs <- map2r (fun b' p => run b' d p c) bs sq;
        do y <- of_opt Internal (tstack k (map fst outs));
        do ld <- of_opt Internal (py_sum O (map snd outs));
        Ok (y, ld)
    | Vmap n mapped cax bs =>
        (* eqx.filter_vmap(f, in_axes=(in_axes, 0, in_axes_condition), axis_size=n); jnp.sum(log_det) *)
        match x with
        | Sc _ => Err Internal
        | Ar xs =>
            do cs <- vmap_conds n (snd sg) cax c;
            do outs <- (if mapped
                        then map2r (fun b' p => run b' d (fst p) (snd p)) bs (combine xs cs)
                        else match bs with
                             | [b0] => mapr (fun p => run b0 d (fst p) (snd p)) (combine xs cs)
                             | _ => Err Internal
                             end);
            Ok (Ar (map fst outs), Sc (tsum O (Ar (map snd outs))))
        end
    | Partial ix s b' =>
        do rs <- of_opt Internal (resolve_idx ix (fst sg));
        do r <- run b' d (tgather rs x) c;
        Ok (tscatter rs x (fst r), snd r)
    | Reshape s cs b' =>
        do sgb <- sig_of b';
        do c' <- match snd sg with
                 | None => Ok c
                 | Some _ => match c, snd sgb with
                             | Some cv, Some csb => Ok (Some (treshape csb cv))
                             | _, _ => Err Internal
                             end
                 end;
        do r <- run b' d (treshape (fst sgb) x) c';
        Ok (treshape (fst sg) (fst r), snd r)
    | EmbedCond e raw b' =>
        match c with
        | None => Err Internal
        | Some cv => do c' <- of_opt Internal (embed_apply e cv); run b' d x (Some c')
        end
    end.

  Definition run_meth (b : bij) (m : meth) (x : tens) (c : option tens) : res (tens * option tens) :=
    do r <- run b (meth_dir m) x c;
    Ok (fst r, if meth_ld m then Some (snd r) else None).

  (* ---------- the definitions ---------- *)
  Definition tcat_d (k : nat) (ts : list tens) : tens := match tcat k ts with Some t => t | None => dflt end.
  Definition tstack_d (k : nat) (ts : list tens) : tens := match tstack k ts with Some t => t | None => dflt end.
  Definition den_step (f : tens -> tens * A) (acc : tens * A) : tens * A :=
    let r := f (fst acc) in (fst r, n_add O (snd acc) (snd r)).
  Definition den_conds (n : nat) (rank : nat) (cax : option Z) (c : option tens) : list (option tens) :=
    match c, cax with
    | None, _ => repeat None n
    | Some cv, None => repeat (Some cv) n
    | Some cv, Some a => let k := Z.to_nat (a mod Z.of_nat rank) in map (fun i => Some (tindex k i cv)) (seq 0 n)
    end.
  Definition embed_d (e : embed) (cv : tens) : tens := match embed_apply e cv with Some t => t | None => dflt end.

  Fixpoint den (b : bij) (d : dir) (x : tens) (c : option tens) {struct b} : tens * A :=
    match b with
    | Leaf l => leaf_den l d x c
    | Chain bs | Scan bs =>
        (* f_n o ... o f_1 ; inverse f_1^-1 o ... o f_n^-1 ; log-dets add *)
        match d with
        | Fwd => fold_left (fun acc b' => den_step (fun y => den b' d y c) acc) bs (x, zero)
        | Inv => fold_right (fun b' acc => den_step (fun y => den b' d y c) acc) (x, zero) bs
        end
    | Invert b' => den b' (flipd d) x c
    | Concat axis bs =>
        (* part i acts on x[..., off_i : off_i + n_i, ...] along axis mod rank; results concatenated *)
        let k := Z.to_nat (axis mod Z.of_nat (length (shape_d b))) in
        let sizes := map (fun b' => nth k (shape_d b') 0) bs in
        let outs := map2 (fun b' p => den b' d (tslice k (fst p) (fst p + snd p) x) c) bs
                         (combine (offsets sizes) sizes) in
        (tcat_d k (map fst outs), sum O (map snd outs))
    | Stack axis bs =>
        (* part i acts on take(x, i, axis mod rank); results stacked along the same axis *)
        let k := Z.to_nat (axis mod Z.of_nat (length (shape_d b))) in
        let outs := map2 (fun b' i => den b' d (tindex k i x) c) bs (seq 0 (length bs)) in
        (tstack_d k (map fst outs), sum O (map snd outs))
    | Vmap n mapped cax bs =>
        (* slice i of the new leading axis is transformed by parameter slice i with condition slice i *)
        let xs := match x with Ar l => l | Sc _ => [] end in
        let cs := den_conds n (length (match cshape_d b with Some s => s | None => [] end)) cax c in
        let outs := if mapped
                    then map2 (fun b' p => den b' d (fst p) (snd p)) bs (combine xs cs)
                    else match bs with
                         | b0 :: _ => map (fun p => den b0 d (fst p) (snd p)) (combine xs cs)
                         | [] => []
                         end in
        (Ar (map fst outs), sum O (map snd outs))
    | Partial ix s b' =>
        (* only the indexed entries change *)
        let rs := match resolve_idx ix s with Some rs => rs | None => [] end in
        let r := den b' d (tgather rs x) c in
        (tscatter rs x (fst r), snd r)
    | Reshape s cs b' =>
        let c' := match cshape_d b, c, cshape_d b' with
                  | Some _, Some cv, Some csb => Some (treshape csb cv)
                  | _, _, _ => c
                  end in
        let r := den b' d (treshape (shape_d b') x) c' in
        (treshape (shape_d b) (fst r), snd r)
    | EmbedCond e raw b' => den b' d x (option_map (embed_d e) c)
    end.

  (* ---------- Chain.merge_chains / __getitem__ ---------- *)
  Definition is_chain (b : bij) : bool := match b with Chain _ => true | _ => false end.
  Definition merge_pass (bs : list bij) : list bij :=
    flat_map (fun b => match b with Chain l => l | _ => [b] end) bs.
  (* "while any(isinstance(b, Chain) ...)": fuel = an upper bound on the nesting depth *)
  Fixpoint merge_loop (fuel : nat) (bs : list bij) : list bij :=
    if existsb is_chain bs
    then match fuel with 0 => bs | S f => merge_loop f (merge_pass bs) end
    else bs.
  Fixpoint chain_depth (b : bij) : nat :=
    match b with Chain bs => S (fold_right Nat.max 0 (map chain_depth bs)) | _ => 0 end.
  Definition merge_chains (bs : list bij) : bij :=
    Chain (merge_loop (fold_right Nat.max 0 (map chain_depth bs)) bs).
  (* chain[lo:hi] *)
  Definition chain_slice (bs : list bij) (lo hi : option Z) : bij := Chain (pslice bs lo hi).
End B.
Arguments leaf : clear implicits.
Arguments bij : clear implicits.
