(* Tensors as nested lists over an arbitrary carrier, with the NumPy/JAX operations the flowjax
   combinators use (flowjax/bijections/{chain,concatenate,jax_transforms,utils}.py):
   python slices and range indexing of shape tuples, normalisation of negative axes,
   jnp.array_split / jnp.split / squeeze / expand_dims / concatenate / stack along an axis,
   reshape (C order), flip, basic + single-advanced indexing x[idx] and x.at[idx].set(y).
   Executable, no proofs.  Axis operations are structural recursions on the (normalised) axis.

   A tensor does not carry its shape: [has_shape s t] says that t is rectangular of shape s.
   ([Ar []] has every shape that starts with 0; the correspondence check never uses 0-sized axes.) *)
From Coq Require Import List ZArith Bool Arith.
From FJ Require Import Model.Num.
Import ListNotations.

Inductive tensor (A : Type) := Sc (a : A) | Ar (l : list (tensor A)).
Arguments Sc {A}. Arguments Ar {A}.
Definition shape := list nat.

(* what a call can raise *)
Inductive err := BadX | NoCond | BadCond | Ctor | Internal | Unsupported.
Inductive res (T : Type) := Ok (t : T) | Err (e : err).
Arguments Ok {T}. Arguments Err {T}.
Definition bind {T U} (r : res T) (f : T -> res U) : res U :=
  match r with Ok t => f t | Err e => Err e end.
Notation "'do' x <- r ; f" := (bind r (fun x => f)) (at level 200, x pattern, r at level 100, f at level 200).
Definition of_opt {T} (e : err) (o : option T) : res T := match o with Some t => Ok t | None => Err e end.

(* ---------- generic list helpers ---------- *)
Definition map2 {X Y Z} (f : X -> Y -> Z) : list X -> list Y -> list Z :=
  fix go l1 l2 := match l1, l2 with a :: t1, b :: t2 => f a b :: go t1 t2 | _, _ => [] end.
(* all-or-nothing map *)
Definition mapo {X Y} (f : X -> option Y) : list X -> option (list Y) :=
  fix go l := match l with
  | [] => Some []
  | a :: t => match f a, go t with Some b, Some r => Some (b :: r) | _, _ => None end
  end.
(* zip with strict=True, all-or-nothing *)
Definition map2o {X Y Z} (f : X -> Y -> option Z) : list X -> list Y -> option (list Z) :=
  fix go l1 l2 := match l1, l2 with
  | [], [] => Some []
  | a :: t1, b :: t2 => match f a b, go t1 t2 with Some c, Some r => Some (c :: r) | _, _ => None end
  | _, _ => None
  end.
Definition mapr {X Y} (f : X -> res Y) : list X -> res (list Y) :=
  fix go l := match l with
  | [] => Ok []
  | a :: t => do b <- f a; do r <- go t; Ok (b :: r)
  end.
(* zip(..., strict=True) then call, left to right *)
Definition map2r {X Y Z} (f : X -> Y -> res Z) : list X -> list Y -> res (list Z) :=
  fix go l1 l2 := match l1, l2 with
  | [], [] => Ok []
  | a :: t1, b :: t2 => do c <- f a b; do r <- go t1 t2; Ok (c :: r)
  | _, _ => Err Internal
  end.
Fixpoint upd {X} (l : list X) (i : nat) (v : X) : list X :=
  match l, i with
  | [], _ => []
  | _ :: t, O => v :: t
  | h :: t, S i' => h :: upd t i' v
  end.
Definition sumn (l : list nat) : nat := fold_right Nat.add 0 l.
Definition prodn (l : list nat) : nat := fold_right Nat.mul 1 l.
Definition shape_eqb (a b : shape) : bool := if list_eq_dec Nat.eq_dec a b then true else false.
Definition oshape_eqb (a b : option shape) : bool :=
  match a, b with None, None => true | Some x, Some y => shape_eqb x y | _, _ => false end.
(* chunks m n l: the first n consecutive chunks of length m *)
Fixpoint chunks {X} (m n : nat) (l : list X) : list (list X) :=
  match n with O => [] | S n' => firstn m l :: chunks m n' (skipn m l) end.
(* itertools.accumulate(l) (running sums, same length as l) *)
Fixpoint accumulate_from (acc : nat) (l : list nat) : list nat :=
  match l with [] => [] | a :: t => (acc + a) :: accumulate_from (acc + a) t end.
Definition accumulate := accumulate_from 0.
(* offsets [n1;n2;n3] = [0; n1; n1+n2] *)
Fixpoint offsets_from (acc : nat) (l : list nat) : list nat :=
  match l with [] => [] | a :: t => acc :: offsets_from (acc + a) t end.
Definition offsets := offsets_from 0.

(* ---------- python / numpy index conventions ---------- *)
Open Scope Z_scope.
(* range(n)[i]  and  numpy normalize_axis_index(i, n): a negative index wraps once; out of range raises *)
Definition py_range_index (n : nat) (i : Z) : option nat :=
  let n' := Z.of_nat n in
  let j := if i <? 0 then i + n' else i in
  if (0 <=? j) && (j <? n') then Some (Z.to_nat j) else None.
Definition np_axis := py_range_index.
(* l[lo:hi] (step 1): negative bounds wrap once, then clamp *)
Definition norm_idx (len i : Z) : Z := let j := if i <? 0 then i + len else i in Z.max 0 (Z.min len j).
Definition pslice {X} (l : list X) (lo hi : option Z) : list X :=
  let len := Z.of_nat (length l) in
  let a := match lo with None => 0 | Some i => norm_idx len i end in
  let b := match hi with None => len | Some i => norm_idx len i end in
  firstn (Z.to_nat (b - a)) (skipn (Z.to_nat a) l).
(* an integer index into an axis of size n (static int or int-array element): wraps once *)
Definition wrapz (n : nat) (z : Z) : Z := if z <? 0 then z + Z.of_nat n else z.
(* x[i] gathers clamp out-of-range positions *)
Definition clampn (n : nat) (z : Z) : nat := Z.to_nat (Z.max 0 (Z.min (Z.of_nat n - 1) z)).
(* x.at[i].set drops out-of-range positions *)
Definition inrange (n : nat) (z : Z) : bool := (0 <=? z) && (z <? Z.of_nat n).
(* slice(lo, hi, step).indices(n) expanded to the list range(start, stop, step); None if step = 0 *)
Definition slice_bound (n step : Z) (v : option Z) (dflt : Z) : Z :=
  match v with
  | None => dflt
  | Some i => if i <? 0
              then (let j := i + n in if j <? 0 then (if step <? 0 then -1 else 0) else j)
              else (if n <=? i then (if step <? 0 then n - 1 else n) else i)
  end.
Fixpoint zrange (start step : Z) (cnt : nat) : list Z :=
  match cnt with O => [] | S c => start :: zrange (start + step) step c end.
Definition slice_indices (n : nat) (lo hi step : option Z) : option (list Z) :=
  let n' := Z.of_nat n in
  let st := match step with None => 1 | Some s => s end in
  if st =? 0 then None else
  let start := slice_bound n' st lo (if st <? 0 then n' - 1 else 0) in
  let stop := slice_bound n' st hi (if st <? 0 then -1 else n') in
  let cnt := if st <? 0 then (if stop <? start then (start - stop - 1) / (- st) + 1 else 0)
             else (if start <? stop then (stop - start - 1) / st + 1 else 0) in
  Some (zrange start st (Z.to_nat cnt)).
Close Scope Z_scope.

(* ---- indexing x[idx] / x.at[idx].set(y) ----
   an index is a tuple of per-axis selectors (a non-tuple index is a 1-tuple) *)
Inductive sel :=
| SInt (z : Z)                              (* python int: axis dropped *)
| SSlice (lo hi step : option Z)            (* slice: axis kept *)
| SArr (zs : list Z)                        (* 1-d int array: axis kept *)
| SMask (m : list bool).                    (* 1-d bool array: axis kept *)
(* resolved selector for an axis of size n: wrapped positions, and whether the axis is kept *)
Definition mask_positions (m : list bool) : list Z :=
  map (fun p => Z.of_nat (fst p)) (filter snd (combine (seq 0 (length m)) m)).
Definition resolve_sel (n : nat) (s : sel) : option (list Z * bool) :=
  if Nat.eqb n 0 then None      (* zero-sized axes are outside the model *)
  else match s with
  | SInt z => Some ([wrapz n z], false)
  | SSlice lo hi st => option_map (fun l => (l, true)) (slice_indices n lo hi st)
  | SArr zs => Some (map (wrapz n) zs, true)
  | SMask m => if Nat.eqb (length m) n then Some (mask_positions m, true) else None
  end.
Definition is_adv (s : sel) : bool := match s with SArr _ | SMask _ => true | _ => false end.
Definition is_int (s : sel) : bool := match s with SInt _ => true | _ => false end.
(* supported: basic indexing, or exactly one array selector and no python int next to it
   (NumPy treats an int beside an array as a second advanced index and moves the result axes) *)
Definition idx_supported (ix : list sel) : bool :=
  let na := length (filter is_adv ix) in
  Nat.eqb na 0 || (Nat.eqb na 1 && Nat.eqb (length (filter is_int ix)) 0).
(* resolve the whole tuple against a shape; None where NumPy raises IndexError/ValueError *)
Fixpoint resolve_idx (ix : list sel) (s : shape) : option (list (list Z * bool)) :=
  match ix, s with
  | [], _ => Some []
  | _ :: _, [] => None     (* too many indices *)
  | i :: ix', n :: s' =>
      match resolve_sel n i, resolve_idx ix' s' with
      | Some r, Some rs => Some (r :: rs)
      | _, _ => None
      end
  end.
(* shape of zeros(s)[idx] *)
Fixpoint idx_shape (rs : list (list Z * bool)) (s : shape) : shape :=
  match rs, s with
  | [], _ => s
  | _, [] => []
  | (zs, keep) :: rs', _ :: s' => if keep then length zs :: idx_shape rs' s' else idx_shape rs' s'
  end.

Section T.
  Context {A : Type}.
  Notation tens := (tensor A).
  Definition dflt : tens := Ar [].

  Fixpoint has_shape (s : shape) (t : tens) : bool :=
    match s, t with
    | [], Sc _ => true
    | n :: s', Ar l => Nat.eqb (length l) n && forallb (has_shape s') l
    | _, _ => false
    end.
  (* shape read off the first spine *)
  Fixpoint tshape (t : tens) : shape :=
    match t with
    | Sc _ => []
    | Ar l => length l :: match l with [] => [] | h :: _ => tshape h end
    end.
  Definition is_scalar (t : tens) : bool := match t with Sc _ => true | Ar _ => false end.

  Fixpoint flatten (t : tens) : list A :=
    match t with Sc a => [a] | Ar l => flat_map flatten l end.
  Fixpoint unflatten (s : shape) (l : list A) : tens :=
    match s with
    | [] => match l with a :: _ => Sc a | [] => dflt end
    | n :: s' => Ar (map (unflatten s') (chunks (prodn s') n l))
    end.
  (* x.reshape(s) *)
  Definition treshape (s : shape) (t : tens) : tens := unflatten s (flatten t).

  Fixpoint tmap (f : A -> A) (t : tens) : tens :=
    match t with Sc a => Sc (f a) | Ar l => Ar (map (tmap f) l) end.
  (* elementwise on equal shapes *)
  Fixpoint tmap2 (f : A -> A -> A) (t u : tens) : tens :=
    match t, u with
    | Sc a, Sc b => Sc (f a b)
    | Ar l, Ar m => Ar (map2 (tmap2 f) l m)
    | _, _ => dflt
    end.
  (* jnp.flip(x): every axis reversed *)
  Fixpoint tflip (t : tens) : tens :=
    match t with Sc a => Sc a | Ar l => Ar (rev (map tflip l)) end.

  (* x[..., a:b, ...] along axis k *)
  Fixpoint tslice (k a b : nat) (t : tens) : tens :=
    match t with
    | Sc _ => t
    | Ar l => match k with
              | O => Ar (firstn (b - a) (skipn a l))
              | S k' => Ar (map (tslice k' a b) l)
              end
    end.
  (* jnp.take(x, i, axis=k) *)
  Fixpoint tindex (k i : nat) (t : tens) : tens :=
    match t with
    | Sc _ => t
    | Ar l => match k with
              | O => nth i l dflt
              | S k' => Ar (map (tindex k' i) l)
              end
    end.
  (* x.squeeze(axis=k): the axis must have size 1 *)
  Fixpoint tsqueeze (k : nat) (t : tens) : option tens :=
    match t with
    | Sc _ => None
    | Ar l => match k with
              | O => match l with [u] => Some u | _ => None end
              | S k' => option_map Ar (mapo (tsqueeze k') l)
              end
    end.
  (* jnp.expand_dims(x, k) *)
  Fixpoint texpand (k : nat) (t : tens) : tens :=
    match k with
    | O => Ar [t]
    | S k' => match t with Sc _ => t | Ar l => Ar (map (texpand k') l) end
    end.
  (* jnp.concatenate([t1, t2], axis=k); None where NumPy raises (rank too small, off-axis sizes differ) *)
  Fixpoint tcat2 (k : nat) (t1 t2 : tens) : option tens :=
    match t1, t2 with
    | Ar l1, Ar l2 => match k with
                      | O => Some (Ar (l1 ++ l2))
                      | S k' => option_map Ar (map2o (tcat2 k') l1 l2)
                      end
    | _, _ => None
    end.
  Fixpoint tcat (k : nat) (ts : list tens) : option tens :=
    match ts with
    | [] => None
    | [t] => match t with Ar _ => Some t | Sc _ => None end
    | t :: r => match tcat k r with Some u => tcat2 k t u | None => None end
    end.
  (* jnp.stack(ts, axis=k) = concatenate of expand_dims *)
  Definition tstack (k : nat) (ts : list tens) : option tens := tcat k (map (texpand k) ts).

  (* numpy.array_split(x, idxs, axis=k) for an axis of size n: div_points = [0] + idxs + [n],
     sub-arrays x[st:end] along the axis *)
  Definition array_split (k n : nat) (idxs : list nat) (t : tens) : list tens :=
    let div := 0 :: idxs ++ [n] in
    map2 (fun st en => tslice k st en t) div (tl div).
  (* jnp.split(x, m, axis=k) for an axis of size n: m equal sections, error unless m divides n *)
  Definition split_eq (k n m : nat) (t : tens) : option (list tens) :=
    if Nat.eqb m 0 then None
    else if negb (Nat.eqb (n mod m) 0) then None
    else let sz := n / m in Some (map (fun j => tslice k (j * sz) ((j + 1) * sz) t) (seq 0 m)).

  (* x[idx]: out-of-range positions clamp *)
  Fixpoint tgather (rs : list (list Z * bool)) (t : tens) : tens :=
    match rs with
    | [] => t
    | (zs, keep) :: rs' =>
        match t with
        | Sc _ => t
        | Ar l =>
            let pick z := tgather rs' (nth (clampn (length l) z) l dflt) in
            if keep then Ar (map pick zs) else match zs with z :: _ => pick z | [] => dflt end
        end
    end.
  (* x.at[idx].set(y): out-of-range positions are dropped; repeated positions: the last write wins *)
  Fixpoint tscatter (rs : list (list Z * bool)) (t y : tens) : tens :=
    match rs with
    | [] => y
    | (zs, keep) :: rs' =>
        match t with
        | Sc _ => t
        | Ar l =>
            let n := length l in
            let put (l : list tens) (z : Z) (v : tens) :=
              if inrange n z then upd l (Z.to_nat z) (tscatter rs' (nth (Z.to_nat z) l dflt) v) else l in
            if keep
            then match y with
                 | Ar ys => Ar (fold_left (fun l zv => put l (fst zv) (snd zv)) (combine zs ys) l)
                 | Sc _ => t
                 end
            else match zs with z :: _ => Ar (put l z y) | [] => t end
        end
    end.

  (* multi-index access (for pointwise statements) *)
  Fixpoint tget (t : tens) (ix : list nat) : option A :=
    match ix, t with
    | [], Sc a => Some a
    | i :: ix', Ar l => match nth_error l i with Some u => tget u ix' | None => None end
    | _, _ => None
    end.

  (* ---- arithmetic over the carrier ---- *)
  Context (O : NumOps A).
  (* jnp.sum(x): a 0-d array is returned as it is *)
  Definition tsum (t : tens) : A := match t with Sc a => a | Ar _ => sum O (flatten t) end.
  (* a + b on arrays as used by python sum(log_dets): equal shapes, or a scalar with anything *)
  Definition tplus (t u : tens) : option tens :=
    match t, u with
    | Sc a, _ => Some (tmap (fun b => n_add O a b) u)
    | _, Sc b => Some (tmap (fun a => n_add O a b) t)
    | _, _ => if shape_eqb (tshape t) (tshape u) then Some (tmap2 (n_add O) t u) else None
    end.
  (* python sum(list of arrays): 0 + l1 + l2 + ... *)
  Definition py_sum (ls : list tens) : option tens :=
    fold_left (fun acc l => match acc with Some a => tplus a l | None => None end) ls (Some (Sc (c O 0))).
End T.
