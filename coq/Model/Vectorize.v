(* Model of the batching machinery of flowjax/distributions.py:
     AbstractDistribution.{log_prob, sample, sample_and_log_prob, _vectorize, _get_sample_keys}
   together with the parts of jax.numpy.vectorize / lax.broadcast_shapes they rely on.
   Discrete: shapes are lists of nat, multi-indices are lists of nat, PRNG keys are identified by
   their position in the one jr.split the code performs.  Executable, no proofs.

   A *plan* lists, for every element I of the batched output (np.ndindex order), which slice of
   every argument the unbatched method is called on (and with which key).  The harness executes the
   plan against the real code; Proofs/VectorizeP.v proves what the plan is. *)
From Coq Require Import List Arith ZArith Bool.
Import ListNotations.

Definition shape := list nat.
Definition index := list nat.

(* which check of the code raised *)
Inductive err :=
| EArraylike   (* utils.arraylike_to_array: TypeError (condition is None for a conditional distribution) *)
| ENdim        (* jnp.vectorize: "does not have enough dimensions for all core dimensions" *)
| EDimSize     (* jnp.vectorize: "inconsistent size for core dimension" *)
| EBroadcast   (* lax.broadcast_shapes: "Incompatible shapes for broadcasting" *)
| ETrailing    (* _vectorize._check_shapes: "Expected trailing dimensions matching" *)
| EReshape.    (* _get_sample_keys: jnp.reshape of split(key, max(1, 0)) into a shape of size 0 *)

Inductive result (A : Type) := Ok (a : A) | Err (e : err).
Arguments Ok {A} a.
Arguments Err {A} e.

Definition prod (s : shape) : nat := fold_right Nat.mul 1 s.

Fixpoint shape_eqb (a b : list nat) : bool :=
  match a, b with
  | [], [] => true
  | x :: a', y :: b' => (x =? y) && shape_eqb a' b'
  | _, _ => false
  end.

(* ---------- python slices of a shape tuple ---------- *)
(* t[:stop] ; stop = None | int (negative counts from the end, clamped) *)
Definition py_slice_to (stop : option Z) (l : shape) : shape :=
  match stop with
  | None => l
  | Some z => let n := Z.of_nat (length l) in
              let z' := if (z <? 0)%Z then Z.max 0 (n + z) else Z.min z n in
              firstn (Z.to_nat z') l
  end.
(* t[start:] *)
Definition py_slice_from (start : Z) (l : shape) : shape :=
  let n := Z.of_nat (length l) in
  let z' := if (start <? 0)%Z then Z.max 0 (n + start) else Z.min start n in
  skipn (Z.to_nat z') l.
(* python:  -k or None *)
Definition neg_or_none (k : nat) : option Z :=
  let z := (- Z.of_nat k)%Z in if (z =? 0)%Z then None else Some z.

(* ---------- lax.broadcast_shapes (two shapes) ---------- *)
(* (1,) * (ndim - len(shape)) + shape *)
Definition pad1 (n : nat) (s : shape) : shape := repeat 1 (n - length s) ++ s.

(* one axis of _try_broadcast_shapes: identical -> that size; otherwise the non-1 sizes must agree *)
Definition bdim (a b : nat) : result nat :=
  if a =? b then Ok a else if a =? 1 then Ok b else if b =? 1 then Ok a else Err EBroadcast.

Fixpoint bzip (a b : shape) : result shape :=
  match a, b with
  | [], [] => Ok []
  | x :: a', y :: b' =>
      match bdim x y with
      | Err e => Err e
      | Ok d => match bzip a' b' with Err e => Err e | Ok r => Ok (d :: r) end
      end
  | _, _ => Err EBroadcast
  end.

Definition broadcast_shapes (a b : shape) : result shape :=
  let n := Nat.max (length a) (length b) in bzip (pad1 n a) (pad1 n b).

(* ---------- which input element feeds output element I ---------- *)
(* jnp.vectorize squeezes the size-1 batch axes of an argument and vmaps it with in_axes=None along
   them, and along the leading axes it does not have: the argument's own index is I right-aligned,
   leading entries dropped, size-1 axes pinned to 0. *)
Fixpoint bproj_aligned (s : shape) (I : index) : index :=
  match s, I with
  | n :: s', i :: I' => (if n =? 1 then 0 else i) :: bproj_aligned s' I'
  | _, _ => []
  end.
Definition bproj (s_in s_out : shape) (I : index) : index :=
  bproj_aligned s_in (skipn (length s_out - length s_in) I).

(* np.ndindex of s: all multi-indices, C order *)
Fixpoint ndindex (s : shape) : list index :=
  match s with
  | [] => [[]]
  | n :: s' => flat_map (fun i => map (cons i) (ndindex s')) (seq 0 n)
  end.

(* position of multi-index I in a C-ordered array of shape s (np.ravel_multi_index) *)
Fixpoint ravel_acc (acc : nat) (s : shape) (I : index) : nat :=
  match s, I with
  | n :: s', i :: I' => ravel_acc (acc * n + i) s' I'
  | _, _ => acc
  end.
Definition ravel (s : shape) (I : index) : nat := ravel_acc 0 s I.

(* ---------- jnp.vectorize with the signature _get_ufunc_signature builds ---------- *)
(* The core dimensions are *named by their declared sizes* ("(2,3),(3)->()"), so equal declared sizes
   share a name.  dim_sizes: name -> size seen first. *)
Fixpoint dims_lookup (ds : list (nat * nat)) (name : nat) : option nat :=
  match ds with
  | [] => None
  | (k, v) :: ds' => if k =? name then Some v else dims_lookup ds' name
  end.

(* _update_dim_sizes, the loop over zip(core_dims, core_shape) *)
Fixpoint update_dims (ds : list (nat * nat)) (names sizes : list nat) : result (list (nat * nat)) :=
  match names, sizes with
  | nm :: names', sz :: sizes' =>
      match dims_lookup ds nm with
      | None => update_dims ((nm, sz) :: ds) names' sizes'
      | Some v => if v =? sz then update_dims ds names' sizes' else Err EDimSize
      end
  | _, _ => Ok ds
  end.

(* one array argument of declared core shape [core] and actual shape [s]:
   (batch shape, actual core shape, dim_sizes') *)
Definition vec_arg (ds : list (nat * nat)) (core s : shape) : result (shape * shape * list (nat * nat)) :=
  if length s <? length core then Err ENdim
  else
    let core_shape := match core with [] => [] | _ => py_slice_from (- Z.of_nat (length core)) s end in
    match update_dims ds core core_shape with
    | Err e => Err e
    | Ok ds' => Ok (firstn (length s - length core) s, core_shape, ds')
    end.

(* a plan entry: output index, index into the batch axes of argument 1, of argument 2 (None: the
   argument is not an array argument of the vectorised function -- excluded / passed through) *)
Definition entry := (index * index * option index)%type.

(* two array arguments *)
Definition vectorize2 (core1 core2 s1 s2 : shape) : result (shape * list entry) :=
  match vec_arg [] core1 s1 with
  | Err e => Err e
  | Ok (b1, c1, ds1) =>
    match vec_arg ds1 core2 s2 with
    | Err e => Err e
    | Ok (b2, c2, _) =>
      match broadcast_shapes b1 b2 with
      | Err e => Err e
      | Ok out =>
          (* _check_shapes runs inside the vectorised call (at least once, also for empty batches) *)
          if shape_eqb c1 core1 && shape_eqb c2 core2
          then Ok (out, map (fun I => (I, bproj b1 out I, Some (bproj b2 out I))) (ndindex out))
          else Err ETrailing
      end
    end
  end.

(* one array argument; the second positional argument is in [excluded] *)
Definition vectorize1 (core1 s1 : shape) : result (shape * list entry) :=
  match vec_arg [] core1 s1 with
  | Err e => Err e
  | Ok (b1, c1, _) =>
      if shape_eqb c1 core1
      then Ok (b1, map (fun I => (I, bproj b1 b1 I, None)) (ndindex b1))
      else Err ETrailing
  end.

(* ---------- AbstractDistribution.log_prob ---------- *)
(* dshape = dist.shape; cshape = dist.cond_shape (None: unconditional); xs = x.shape;
   cs = condition.shape (None: condition=None).  Result: (shape of the returned array, plan). *)
Definition plan_logprob (dshape : shape) (cshape : option shape) (xs : shape) (cs : option shape)
  : result (shape * list entry) :=
  match cshape with
  | None => vectorize1 dshape xs                (* excluded = {1}: whatever is passed as condition is ignored *)
  | Some csh =>
      match cs with
      | None => Err EArraylike
      | Some cs' => vectorize2 dshape csh xs cs'
      end
  end.

(* ---------- AbstractDistribution._get_sample_keys ---------- *)
(* (key_shape, key_size): the key is split into key_size keys, reshaped to key_shape + (2,) *)
Definition get_sample_keys (cshape : option shape) (sample_shape : shape) (cs : shape) : result (shape * nat) :=
  let leading_cond_shape :=
    match cshape with
    | Some csh => py_slice_to (neg_or_none (length csh)) cs     (* condition.shape[: -self.cond_ndim or None] *)
    | None => []
    end in
  let key_shape := sample_shape ++ leading_cond_shape in
  let key_size := Nat.max 1 (prod key_shape) in
  if key_size =? prod key_shape then Ok (key_shape, key_size) else Err EReshape.

(* a sampling-plan entry: output index, position of its key in split(key, key_size), index into the batch
   axes of the condition (None: unconditional) *)
Definition sentry := (index * nat * option index)%type.

(* ---------- AbstractDistribution.sample / sample_and_log_prob ---------- *)
(* Result: (batch part of the output shape, key_size, plan).  sample returns an array of shape
   batch ++ dshape; sample_and_log_prob additionally one of shape batch. *)
Definition plan_sample (cshape : option shape) (sample_shape : shape) (cs : option shape)
  : result (shape * nat * list sentry) :=
  match cshape with
  | None =>
      match get_sample_keys None sample_shape [] with
      | Err e => Err e
      | Ok (key_shape, key_size) =>
          match vectorize1 [2] (key_shape ++ [2]) with
          | Err e => Err e
          | Ok (out, es) => Ok (out, key_size, map (fun e : entry => let '(J, Jk, _) := e in (J, ravel key_shape Jk, None)) es)
          end
      end
  | Some csh =>
      match cs with
      | None => Err EArraylike
      | Some cs' =>
          match get_sample_keys cshape sample_shape cs' with
          | Err e => Err e
          | Ok (key_shape, key_size) =>
              match vectorize2 [2] csh (key_shape ++ [2]) cs' with
              | Err e => Err e
              | Ok (out, es) => Ok (out, key_size, map (fun e : entry => let '(J, Jk, Jc) := e in (J, ravel key_shape Jk, Jc)) es)
              end
          end
      end
  end.

Definition sample_out_shape (dshape batch : shape) : shape := batch ++ dshape.

(* ---------- nested-list tensors: what "element I", "slice" and np.broadcast_to mean ---------- *)
Inductive tensor (A : Type) := Sc (a : A) | Ar (l : list (tensor A)).
Arguments Sc {A} a.
Arguments Ar {A} l.

(* t[I] for a (possibly partial) multi-index: a sub-tensor; d when out of range *)
Fixpoint tsub {A} (d : tensor A) (t : tensor A) (I : index) : tensor A :=
  match I with
  | [] => t
  | i :: I' => match t with Ar l => tsub d (nth i l d) I' | Sc _ => d end
  end.

(* np.broadcast_to(t, out) for t of shape s, ranks equal: size-1 axes are repeated *)
Fixpoint bcast_al {A} (d : tensor A) (s out : shape) (t : tensor A) : tensor A :=
  match s, out, t with
  | n :: s', m :: out', Ar l =>
      if n =? 1 then Ar (repeat (bcast_al d s' out' (nth 0 l d)) m)
      else Ar (map (bcast_al d s' out') l)
  | _, _, _ => t
  end.
(* k missing leading axes are added first *)
Fixpoint bcast_lead {A} (d : tensor A) (k : nat) (s out : shape) (t : tensor A) : tensor A :=
  match k, out with
  | S k', m :: out' => Ar (repeat (bcast_lead d k' s out' t) m)
  | _, _ => bcast_al d s out t
  end.
Definition broadcast_to {A} (d : tensor A) (s out : shape) (t : tensor A) : tensor A :=
  bcast_lead d (length out - length s) s out t.

(* the array of shape [out] (++ the shape of the values of g) whose element I is g I *)
Fixpoint tab {A} (out : shape) (g : index -> tensor A) : tensor A :=
  match out with
  | [] => g []
  | n :: s => Ar (map (fun i => tab s (fun I => g (i :: I))) (seq 0 n))
  end.

Fixpoint lookup {E} (es : list (index * E)) (I : index) : option E :=
  match es with
  | [] => None
  | (J, e) :: es' => if shape_eqb J I then Some e else lookup es' I
  end.

(* executing a log_prob plan with an arbitrary unbatched method f *)
Definition run_logprob {A B} (dA : tensor A) (dB : tensor B) (f : tensor A -> option (tensor A) -> tensor B)
    (out : shape) (es : list entry) (x : tensor A) (c : option (tensor A)) : tensor B :=
  tab out (fun I =>
    match lookup (map (fun e : entry => let '(J, Jx, Jc) := e in (J, (Jx, Jc))) es) I with
    | Some (Ix, Some Ic) => match c with Some c' => f (tsub dA x Ix) (Some (tsub dA c' Ic)) | None => dB end
    | Some (Ix, None) => f (tsub dA x Ix) c
    | None => dB
    end).

(* executing a sampling plan: f is the unbatched _sample (or _sample_and_log_prob), keys k = split(key, key_size)[k] *)
Definition run_sample {K A B} (dA : tensor A) (dB : tensor B) (f : K -> option (tensor A) -> tensor B)
    (keys : nat -> K) (out : shape) (es : list sentry) (c : option (tensor A)) : tensor B :=
  tab out (fun I =>
    match lookup (map (fun e : sentry => let '(J, k, Jc) := e in (J, (k, Jc))) es) I with
    | Some (k, Some Ic) => match c with Some c' => f (keys k) (Some (tsub dA c' Ic)) | None => dB end
    | Some (k, None) => f (keys k) c
    | None => dB
    end).

(* flat (C-order) list <-> nested tensor, for the wire format *)
Definition flatten {A} (s : shape) (d : tensor A) (t : tensor A) : list (tensor A) :=
  map (tsub d t) (ndindex s).
