(* Executable models of the elementary ("leaf") bijections of flowjax/bijections:
   affine.py {Affine, Loc, Scale, TriangularAffine}, exp.py, softplus.py, tanh.py {Tanh, LeakyTanh,
   _tanh_log_grad}, rational_quadratic_spline.py {transform, inverse, derivative}, planar.py.
   Generic over NumOps; shaped like the code (same branches, same operation order, NumPy index
   semantics).  Scalar functions are the per-element maps; [lift]/[lift_ld] give the array
   versions (elementwise map; log-det = sum over all elements).  No proofs here. *)
From Coq Require Import List ZArith Bool.
From FJ Require Import Model.Num.
Import ListNotations.

Section Leaves.
  Context {A : Type} (O : NumOps A).
  Local Notation "a + b" := (n_add O a b).
  Local Notation "a - b" := (n_sub O a b).
  Local Notation "a * b" := (n_mul O a b).
  Local Notation "a / b" := (n_div O a b).
  Local Notation "- a" := (n_neg O a).
  Local Notation c := (Num.c O).
  Local Notation where_ := (@Num.where_ A).
  (* jnp: a >= b *)
  Definition geb (a b : A) : bool := n_leb O b a.

  (* ---------------- affine.py ---------------- *)
  Definition affine_fwd (loc scale x : A) : A := x * scale + loc.
  Definition affine_inv (loc scale y : A) : A := (y - loc) / scale.
  Definition affine_ld (scale : A) : A := n_log O (n_abs O scale).   (* per element; inverse: negated *)
  Definition loc_fwd (loc x : A) : A := x + loc.
  Definition loc_inv (loc y : A) : A := y - loc.
  Definition scale_fwd (scale x : A) : A := x * scale.
  Definition scale_inv (scale y : A) : A := y / scale.

  (* ---------------- exp.py ---------------- *)
  Definition exp_fwd (x : A) : A := n_exp O x.
  Definition exp_inv (y : A) : A := n_log O y.
  Definition exp_ld_fwd (x : A) : A := x.
  Definition exp_ld_inv (y : A) : A := - (n_log O y).

  (* ---------------- softplus.py ---------------- *)
  Definition softplus_fwd (x : A) : A := n_softplus O x.
  Definition softplus_ld_fwd (x : A) : A := - (n_softplus O (- x)).
  Definition softplus_inv (y : A) : A := n_log O (- (n_expm1 O (- y))) + y.
  Definition softplus_ld_inv (y : A) : A := n_softplus O (- (softplus_inv y)).

  (* ---------------- tanh.py ---------------- *)
  Definition tanh_log_grad (x : A) : A := (c (-2)) * (x + n_softplus O ((c (-2)) * x) - n_log O (c 2)).
  Definition tanh_fwd (x : A) : A := n_tanh O x.
  Definition tanh_inv (y : A) : A := n_atanh O y.
  Definition tanh_ld_fwd (x : A) : A := tanh_log_grad x.
  Definition tanh_ld_inv (y : A) : A := - (tanh_log_grad (n_atanh O y)).

  (* LeakyTanh.__init__: linear_grad, intercept from max_val *)
  Definition leaky_grad (m : A) : A := n_exp O (tanh_log_grad m).
  Definition leaky_icpt (m : A) : A := n_tanh O m - leaky_grad m * m.
  (* the four methods take the stored fields (m, g = linear_grad, ic = intercept) *)
  Definition leaky_fwd (m g ic x : A) : A :=
    where_ (geb (n_abs O x) m) (g * x + n_sign O x * ic) (n_tanh O x).
  Definition leaky_ld_fwd (m g x : A) : A :=
    where_ (geb (n_abs O x) m) (n_log O g) (tanh_log_grad x).
  Definition leaky_inv (m g ic y : A) : A :=
    let lin := geb (n_abs O y) (n_tanh O m) in
    let x_linear := (y - n_sign O y * ic) / g in
    let y_robust := where_ lin (c 0) y in
    where_ lin x_linear (n_atanh O y_robust).
  Definition leaky_ld_inv (m g ic y : A) : A :=
    let x := leaky_inv m g ic y in
    - (where_ (geb (n_abs O y) (n_tanh O m)) (n_log O g) (tanh_log_grad x)).
  (* the inverse as it was before fix 81a9f7e (arctanh on the unselected branch) has the same VALUE *)

  (* ---------------- rational_quadratic_spline.py ---------------- *)
  (* k = clip(searchsorted(pos, v) - 1, 0, len(pos) - 2) *)
  Definition rqs_bin (pos : list A) (v : A) : Z :=
    Z.max 0 (Z.min (Z.of_nat (length pos) - 2) (searchsorted O pos v - 1)).
  (* the bin index before fix 2486bd0 *)
  Definition rqs_bin_old (pos : list A) (v : A) : Z := (searchsorted O pos v - 1)%Z.

  Section RQS.
    Variable bin : list A -> A -> Z.
    Definition rqs_fwd_g (xp yp dv : list A) (lo hi x : A) : A :=
      let inb := geb x lo && n_leb O x hi in
      let xr := where_ inb x lo in
      let k := bin xp xr in
      let xk := getz O xp k in let xk1 := getz O xp (k + 1) in
      let yk := getz O yp k in let yk1 := getz O yp (k + 1) in
      let xi := (xr - xk) / (xk1 - xk) in
      let sk := (yk1 - yk) / (xk1 - xk) in
      let dk := getz O dv k in let dk1 := getz O dv (k + 1) in
      let num := (yk1 - yk) * (sk * (xi * xi) + dk * xi * (c 1 - xi)) in
      let den := sk + (dk1 + dk - c 2 * sk) * xi * (c 1 - xi) in
      let y := clip O (yk + num / den) lo hi in
      where_ inb y x.
    Definition rqs_inv_g (xp yp dv : list A) (lo hi y : A) : A :=
      let inb := geb y lo && n_leb O y hi in
      let yr := where_ inb y lo in
      let k := bin yp yr in
      let xk := getz O xp k in let xk1 := getz O xp (k + 1) in
      let yk := getz O yp k in let yk1 := getz O yp (k + 1) in
      let sk := (yk1 - yk) / (xk1 - xk) in
      let dk := getz O dv k in let dk1 := getz O dv (k + 1) in
      let t := (yr - yk) * (dk1 + dk - c 2 * sk) in
      let a := (yk1 - yk) * (sk - dk) + t in
      let b := (yk1 - yk) * dk - t in
      let cc := (- sk) * (yr - yk) in
      let sq := n_sqrt O (b * b - c 4 * a * cc) in
      let xi := (c 2 * cc) / ((- b) - sq) in
      let x := clip O (xi * (xk1 - xk) + xk) lo hi in
      where_ inb x y.
    Definition rqs_deriv_g (xp yp dv : list A) (lo hi x : A) : A :=
      let inb := geb x lo && n_leb O x hi in
      let xr := where_ inb x lo in
      let k := bin xp xr in
      let xk := getz O xp k in let xk1 := getz O xp (k + 1) in
      let yk := getz O yp k in let yk1 := getz O yp (k + 1) in
      let xi := (xr - xk) / (xk1 - xk) in
      let sk := (yk1 - yk) / (xk1 - xk) in
      let dk := getz O dv k in let dk1 := getz O dv (k + 1) in
      let num := (sk * sk) * (dk1 * (xi * xi) + c 2 * sk * xi * (c 1 - xi) + dk * ((c 1 - xi) * (c 1 - xi))) in
      let den0 := sk + (dk1 + dk - c 2 * sk) * xi * (c 1 - xi) in
      where_ inb (num / (den0 * den0)) (c 1).
  End RQS.
  Definition rqs_fwd := rqs_fwd_g rqs_bin.
  Definition rqs_inv := rqs_inv_g rqs_bin.
  Definition rqs_deriv := rqs_deriv_g rqs_bin.
  Definition rqs_ld_fwd xp yp dv lo hi x : A := n_log O (rqs_deriv xp yp dv lo hi x).
  Definition rqs_ld_inv xp yp dv lo hi y : A := - (n_log O (rqs_deriv xp yp dv lo hi (rqs_inv xp yp dv lo hi y))).
  Definition rqs_fwd_old := rqs_fwd_g rqs_bin_old.
  Definition rqs_inv_old := rqs_inv_g rqs_bin_old.

  (* ---------------- elementwise lifting to arrays (flat data, C order) ---------------- *)
  Definition lift (f : A -> A) (xs : list A) : list A := map f xs.
  Definition lift_ld (f : A -> A) (xs : list A) : A := sum O (map f xs).
  Definition lift2 (f : A -> A -> A) (ps xs : list A) : list A := map (fun p => f (fst p) (snd p)) (combine ps xs).
  Definition lift3 (f : A -> A -> A -> A) (ps qs xs : list A) : list A :=
    map (fun p => f (fst (fst p)) (snd (fst p)) (snd p)) (combine (combine ps qs) xs).

  (* ---------------- TriangularAffine (the unwrapped triangular matrix is given as rows) ------------ *)
  Definition matvec (m : list (list A)) (x : list A) : list A := map (fun row => dot O row x) m.
  Definition tri_fwd (m : list (list A)) (loc x : list A) : list A := lift2 (n_add O) (matvec m x) loc.
  Definition diag (m : list (list A)) : list A :=
    map (fun p => nth (fst p) (snd p) (c 0)) (combine (seq 0 (length m)) m).
  Definition tri_ld (m : list (list A)) : A := sum O (map (fun d => n_log O (n_abs O d)) (diag m)).
  (* solve_triangular(lower=True): forward substitution; acc holds x_0..x_{i-1} *)
  Fixpoint fsub (rows : list (list A)) (b : list A) (i : nat) (acc : list A) : list A :=
    match rows, b with
    | row :: rows', bi :: b' =>
        let s := dot O (firstn i row) acc in
        let xi := (bi - s) / nth i row (c 0) in
        fsub rows' b' (S i) (acc ++ [xi])
    | _, _ => acc
    end.
  Definition tri_solve_lower (m : list (list A)) (b : list A) : list A := fsub m b 0 [].
  (* upper: reverse rows and columns, solve lower, reverse *)
  Definition tri_solve_upper (m : list (list A)) (b : list A) : list A :=
    rev (tri_solve_lower (rev (map (@rev A) m)) (rev b)).
  Definition tri_inv (lower : bool) (m : list (list A)) (loc y : list A) : list A :=
    let b := lift2 (fun l v => v - l) loc y in
    if lower then tri_solve_lower m b else tri_solve_upper m b.

  (* ---------------- planar.py::_UnconditionalPlanar ---------------- *)
  Definition vscale (k : A) (v : list A) : list A := map (fun a => a * k) v.
  Definition vadd (a b : list A) : list A := lift2 (n_add O) a b.
  Definition vsub (a b : list A) : list A := lift2 (n_sub O) a b.
  (* get_act_scale.  With the leaky-relu activation the map has slopes 1 and negative_slope, so the
     constraint value m(w.u) > -1 is divided by max(1, negative_slope) (fix D7). *)
  Definition planar_k (ns : option A) : A := match ns with Some s => nmax O (c 1) s | None => c 1 end.
  Definition planar_u (ns : option A) (w u0 : list A) : list A :=
    let wtu := dot O u0 w in
    let m_wtu := c (-1) + n_log O (c 1 + n_softplus O wtu) in
    let m_wtu := match ns with Some _ => m_wtu / planar_k ns | None => m_wtu end in
    let nrm := n_sqrt O (dot O w w) in   (* jnp.linalg.norm(w) ** 2 *)
    vadd u0 (map (fun wi => (m_wtu - wtu) * wi / (nrm * nrm)) w).
  (* as it was before fix D7: no division *)
  Definition planar_u_old (w u0 : list A) : list A :=
    let wtu := dot O u0 w in
    let m_wtu := c (-1) + n_log O (c 1 + n_softplus O wtu) in
    let nrm := n_sqrt O (dot O w w) in
    vadd u0 (map (fun wi => (m_wtu - wtu) * wi / (nrm * nrm)) w).
  Definition leaky_relu (s z : A) : A := where_ (geb z (c 0)) z (s * z).
  (* activation: None = tanh, Some s = leaky relu with negative slope s *)
  Definition planar_act (ns : option A) (z : A) : A :=
    match ns with None => n_tanh O z | Some s => leaky_relu s z end.
  Definition planar_fwd (ns : option A) (w u0 : list A) (b : A) (x : list A) : list A :=
    let u := planar_u ns w u0 in vadd x (vscale (planar_act ns (dot O w x + b)) u).
  Definition planar_ld_fwd (ns : option A) (w u0 : list A) (b : A) (x : list A) : A :=
    let u := planar_u ns w u0 in
    let act := planar_act ns (dot O x w + b) in
    let psi := match ns with
               | Some s => vscale (where_ (n_ltb O act (c 0)) s (c 1)) w
               | None => vscale (c 1 - act * act) w end in
    n_log O (n_abs O (c 1 + dot O u psi)).
  Definition planar_inv (s : A) (w u0 : list A) (b : A) (y : list A) : list A :=
    let numer := dot O w y + b in
    let slope := where_ (n_ltb O numer (c 0)) s (c 1) in
    let us := vscale slope (planar_u (Some s) w u0) in
    let denom := c 1 + dot O w us in
    vsub y (vscale (numer / denom) us).
  Definition planar_ld_inv (s : A) (w u0 : list A) (b : A) (y : list A) : A :=
    let numer := dot O w y + b in
    let slope := where_ (n_ltb O numer (c 0)) s (c 1) in
    let us := vscale slope (planar_u (Some s) w u0) in
    - (n_log O (n_abs O (c 1 + dot O us w))).
End Leaves.
