(* Model of the LOG-DETERMINANT that flowjax's BlockAutoregressiveNetwork.transform_and_log_det reports
   (group bnafld, property C02).  Executable Gallina, no proofs, no Reals; generic over NumOps.  Anchors, all in
   flowjax/bijections/block_autoregressive_network.py:
     block_autoregressive_linear.linear_to_log_block_diagonal   idxs = jnp.where(block_diag_mask, size=...);
                                                                jnp.log(linear.weight[idxs].reshape(n_blocks, *block_shape))
     BlockAutoregressiveNetwork._activation_and_log_jacobian_3d jnp.full((dim, bd, bd), -inf).at[:, d, d].set(log_abs_grads.reshape(dim, bd))
     BlockAutoregressiveNetwork.transform_and_log_det           the list log_dets_3ds, the reversed logmatmulexp loop, .sum()
     logmatmulexp                                               shifts by amax, log(matmul(exp, exp)) + x_shift + y_shift
     _CallableToBijection.transform_and_log_det                 log(abs(grad(fn)(x)))
   and flowjax/wrappers.py WeightNormalization.unwrap (scale * weight / norm(weight, axis=-1)).
   The weights are the ones of the VALUE model: Model.Masks.bnaf_weight (softplus on the diagonal blocks, block-lower-
   triangular Where, weight normalisation), computed from the raw trainable arrays; Model.Masks.bnaf_run is the value map
   and [bnaf_ld_run] below computes the same values alongside the log-Jacobian blocks (Proofs/BnafLdP.bnaf_ld_run_value).
   -inf entries (off-diagonal entries of the activation's log-Jacobian blocks) are [None]; exp(-inf - shift) = 0. *)
From Coq Require Import List ZArith Bool Arith.
From FJ Require Import Model.Num Model.Leaves Model.Masks.
Import ListNotations.

(* the raw trainable arrays of one block_autoregressive_linear: the two occurrences of linear.weight in the wrapper tree
   (w1 under softplus on the diagonal blocks, w2 elsewhere), the raw weight-norm scale (column vector), the bias *)
Record graw (A : Type) := { gw1 : list (list A); gw2 : list (list A); gscale : list A; gbias : list A }.
Arguments gw1 {A}. Arguments gw2 {A}. Arguments gscale {A}. Arguments gbias {A}.

(* activations the tie drives: LeakyTanh with its three stored fields, the Tanh bijection, and the callable jnp.tanh
   wrapped by _CallableToBijection *)
Inductive bact (A : Type) := BLeaky (m g ic : A) | BTanh | BCallTanh.
Arguments BLeaky {A}. Arguments BTanh {A}. Arguments BCallTanh {A}.

Section BnafLd.
  Context {A : Type} (O : NumOps A).
  Local Notation zero := (Num.c O 0).
  Local Notation "a + b" := (n_add O a b).
  Local Notation "a - b" := (n_sub O a b).
  Local Notation "a * b" := (n_mul O a b).

  (* ---------------- the weights, from the raw arrays (shared with the value model) ---------------- *)
  (* jnp.linalg.norm(row) *)
  Definition norm2 (l : list A) : A := n_sqrt O (fold_right (fun v a => v * v + a) zero l).
  Definition unwrap_layer_g (dim : nat) (p : (nat * nat) * graw A) : list (list A) :=
    bnaf_weight zero (n_mul O) (n_softplus O) norm2 (n_div O)
                (block_tril_mask (fst (fst p)) (snd (fst p)) dim 0) (block_diag_mask (fst (fst p)) (snd (fst p)) dim)
                (gw1 (snd p)) (gw2 (snd p)) (gscale (snd p)).
  Definition unwrap_ws_g (dim : nat) (shapes : list (nat * nat)) (raws : list (graw A)) : list (list (list A)) :=
    map (unwrap_layer_g dim) (combine shapes raws).

  (* ---------------- activations and the log-gradient they report ---------------- *)
  Definition bact_fwd (a : bact A) (x : A) : A :=
    match a with
    | BLeaky m g ic => leaky_fwd O m g ic x
    | BTanh => tanh_fwd O x
    | BCallTanh => n_tanh O x
    end.
  (* LeakyTanh / Tanh: their own transform_and_log_det;  callable: log(abs(grad(tanh)(x))), jax's tanh rule being
     g * one_minus_square(ans) = (1 + ans) * (1 - ans) *)
  Definition bact_ld (a : bact A) (x : A) : A :=
    match a with
    | BLeaky m g ic => leaky_ld_fwd O m g x
    | BTanh => tanh_ld_fwd O x
    | BCallTanh => let t := n_tanh O x in n_log O (n_abs O ((Num.c O 1 + t) * (Num.c O 1 - t)))
    end.

  (* ---------------- linear_to_log_block_diagonal ---------------- *)
  (* row[mask_row]: the entries under a True, in order *)
  Definition select (m : list bool) (row : list A) : list A := map snd (filter fst (combine m row)).
  (* linear.weight[jnp.where(block_diag_mask)]: row-major order *)
  Definition diag_gather (diag : list (list bool)) (w : list (list A)) : list A :=
    flat_map (fun p : list bool * list A => select (fst p) (snd p)) (combine diag w).
  (* .reshape(n, bh, bw) *)
  Definition reshape3 (n bh bw : nat) (l : list A) : list (list (list A)) :=
    map (fun blk => chunks bh bw blk) (chunks n (bh * bw)%nat l).
  Definition log_block_diag (n bh bw : nat) (w : list (list A)) : list (list (list A)) :=
    map (map (map (n_log O))) (reshape3 n bh bw (diag_gather (block_diag_mask bh bw n) w)).

  (* ---------------- _activation_and_log_jacobian_3d ---------------- *)
  (* full((dim, bd, bd), -inf).at[:, arange(bd), arange(bd)].set(log_abs_grads.reshape(dim, bd)) *)
  Definition act_log_jac_3d (dim bd : nat) (lg : list A) : list (list (list (option A))) :=
    map (fun blk => map (fun rv : nat * A => map (fun cc => if (fst rv =? cc)%nat then Some (snd rv) else None) (seq 0 bd))
                        (combine (seq 0 bd) blk))
        (chunks dim bd lg).
  Definition some3 (m : list (list (list A))) : list (list (list (option A))) := map (map (map (@Some A))) m.

  (* ---------------- logmatmulexp ---------------- *)
  (* jnp.amax of finite values (non-empty in every call made by the network) *)
  Definition amax (l : list A) : A := match l with [] => zero | a :: t => fold_left (nmax O) t a end.
  (* jnp.amax with -inf entries *)
  Definition emax2 (a b : option A) : option A :=
    match a, b with None, y => y | x, None => x | Some x, Some y => Some (nmax O x y) end.
  Definition emax (l : list (option A)) : option A := fold_right emax2 None l.
  (* exp(y - y_shift), y possibly -inf *)
  Definition eexp_sub (y : option A) (s : A) : A := match y with Some v => n_exp O (v - s) | None => zero end.
  Definition ecol (j : nat) (y : list (list (option A))) : list (option A) := map (fun row => nth j row None) y.
  (* x: (r, k) finite; y: (k, c).  x_shift = amax(x, -1), y_shift = amax(y, -2);
     log(matmul(exp(x - x_shift), exp(y - y_shift))) + x_shift + y_shift.
     A column of y that is entirely -inf (y_shift = -inf, nan in the code) does not occur in the network: every column of an
     activation block holds its diagonal entry; the model takes the shift 0 there. *)
  Definition logmatmulexp (x : list (list A)) (y : list (list (option A))) : list (list A) :=
    let nc := ncols y in
    let yshift := map (fun j => match emax (ecol j y) with Some s => s | None => zero end) (seq 0 nc) in
    map (fun xrow =>
           let xs := amax xrow in
           let ex := map (fun v => n_exp O (v - xs)) xrow in
           map (fun js : nat * A =>
                  n_log O (Masks.dot zero (n_add O) (n_mul O) ex (map (fun e => eexp_sub e (snd js)) (ecol (fst js) y)))
                  + xs + snd js)
               (combine (seq 0 nc) yshift))
        x.
  (* batched over the leading (block) axis *)
  Definition lme3 (x : list (list (list A))) (y : list (list (list (option A)))) : list (list (list A)) :=
    map (fun p => logmatmulexp (fst p) (snd p)) (combine x y).

  (* ---------------- transform_and_log_det ---------------- *)
  (* the loop over self.layers[:-1] and the last layer: returns (x, log_dets_3ds[:-1], log_dets_3ds[-1]).
     ws are the unwrapped weights; the value part is Masks.bnaf_run. *)
  Fixpoint bnaf_ld_run (act ld : A -> A) (dim bd : nat) (first : bool) (cterm : option (list A))
           (shapes : list (nat * nat)) (ws : list (list (list A))) (bs : list (list A)) (x : list A)
    : list A * list (list (list (list (option A)))) * list (list (list A)) :=
    match shapes with
    | [] => (x, [], [])
    | s :: rest =>
        let w := hd [] ws in
        let h := Masks.linear zero (n_add O) (n_mul O) (where_mask zero (block_tril_mask (fst s) (snd s) dim 0) w) (hd [] bs) x in
        let lj := log_block_diag dim (fst s) (snd s) w in
        match rest with
        | [] => (h, [], lj)
        | _ :: _ =>
            let h := match first, cterm with true, Some t => Masks.vadd (n_add O) h t | _, _ => h end in
            let a3 := act_log_jac_3d dim bd (map ld h) in
            let r := bnaf_ld_run act ld dim bd false cterm rest (tl ws) (tl bs) (map act h) in
            (fst (fst r), some3 lj :: a3 :: snd (fst r), snd r)
        end
    end.

  (* log_det = log_dets_3ds[-1]; for log_jacobian in reversed(log_dets_3ds[:-1]): log_det = logmatmulexp(log_det, log_jacobian) *)
  Definition ld_chain (lds : list (list (list (list (option A))))) (last : list (list (list A))) : list (list (list A)) :=
    fold_left lme3 (rev lds) last.

  (* (y, the dim entries of the final (dim, 1, 1) array, their sum), from the raw parameters *)
  Definition bnaf_tld (act ld : A -> A) (dim depth bd : nat) (raws : list (graw A)) (cterm : option (list A)) (x : list A)
    : list A * list A * A :=
    let shapes := bnaf_block_shapes depth bd in
    let r := bnaf_ld_run act ld dim bd true cterm shapes (unwrap_ws_g dim shapes raws) (map gbias raws) x in
    let terms := concat (concat (ld_chain (snd (fst r)) (snd r))) in
    (fst (fst r), terms, Num.sum O terms).
  Definition bnaf_tld_act (a : bact A) := bnaf_tld (bact_fwd a) (bact_ld a).
End BnafLd.
