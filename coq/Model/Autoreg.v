(* Generic executable model of the WIRING of coupling.py::Coupling and
   masked_autoregressive.py::MaskedAutoregressive: the conditioner is an arbitrary function
   [g] from the network input (x, or x_cond, hstacked with the condition) to one parameter block
   per transformed coordinate, the transformer an arbitrary scalar family [tfwd p] / [tinv p]
   (`Vmap(transformer, in_axes=0)`).  No proofs here. *)
From Coq Require Import List Arith.
Import ListNotations.

Section Autoreg.
  Context {A P : Type}.
  Variable d : A.                          (* default of the gather x[rank]; never reached for rank < len *)
  Variables tfwd tinv : P -> A -> A.
  Variable g : list A -> list P.

  (* Vmap(transformer, in_axes=0).transform / .inverse : coordinate i uses parameter block i *)
  Definition vmap_t (t : P -> A -> A) (ps : list P) (xs : list A) : list A :=
    map (fun q => t (fst q) (snd q)) (combine ps xs).
  (* y.at[k].set(v)  (an out-of-range update is dropped) *)
  Definition upd (l : list A) (k : nat) (v : A) : list A :=
    if k <? length l then firstn k l ++ v :: skipn (S k) l else l.

  (* MaskedAutoregressive.transform: nn_input = hstack((x, condition)) *)
  Definition maf_fwd (cond x : list A) : list A := vmap_t tfwd (g (x ++ cond)) x.
  (* inv_scan_fn: the whole vector is inverted with the parameters computed from the carry,
     then only coordinate [rank] is kept *)
  Definition maf_inv_step (cond c : list A) (rank : nat) : list A :=
    let x := vmap_t tinv (g (c ++ cond)) c in upd c rank (nth rank x d).
  (* lax.scan(fn, (y, 0), None, length=len(y)) *)
  Definition maf_inv (cond y : list A) : list A := fold_left (maf_inv_step cond) (seq 0 (length y)) y.

  (* Coupling.transform / inverse with untransformed_dim = ud *)
  Definition coupling_fwd (ud : nat) (cond x : list A) : list A :=
    let xc := firstn ud x in let xt := skipn ud x in
    xc ++ vmap_t tfwd (g (xc ++ cond)) xt.
  Definition coupling_inv (ud : nat) (cond y : list A) : list A :=
    let xc := firstn ud y in let yt := skipn ud y in
    xc ++ vmap_t tinv (g (xc ++ cond)) yt.
End Autoreg.
