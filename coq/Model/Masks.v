(* Model of the dependency structure of flowjax's masked / coupling / block networks (property C09).
   Executable Gallina, no proofs, no Reals.  Anchors:
     flowjax/masks.py                                  rank_based_mask, block_diag_mask, block_tril_mask
     flowjax/bijections/masked_autoregressive.py       MaskedAutoregressive.__init__ (ranks), masked_autoregressive_mlp,
                                                       transform, _flat_params_to_transformer
     flowjax/bijections/coupling.py                    Coupling.transform
     flowjax/bijections/block_autoregressive_network.py  BlockAutoregressiveNetwork.__init__/transform,
                                                       block_autoregressive_linear
     flowjax/wrappers.py                               Where.unwrap (jnp.where(cond, if_true, if_false)),
                                                       WeightNormalization.unwrap
   Vectors are lists, matrices are lists of rows (row o = the weights of output o, like eqx.nn.Linear.weight[o]).
   The numeric carrier A is arbitrary: only zero, add, mul (and, for the BNAF weight pipeline, an abstract softplus,
   row norm and division) are used, so the model runs at OCaml floats in the tie and the theorems hold for
   every carrier in which 0 * a = 0. *)
From Coq Require Import List ZArith Bool Arith.
Import ListNotations.

(* ---------------- index helpers ---------------- *)
(* jnp.arange(n) *)
Definition arange (n : nat) : list Z := map Z.of_nat (seq 0 n).
(* jnp.remainder on integers: the sign follows the divisor (like Python, like Z.modulo), and XLA returns 0 for a
   zero divisor (measured: jnp.arange(5) % 0 == [0 0 0 0 0]); Coq's [Z.modulo a 0] is [a], hence the guard. *)
Definition jnp_mod (a b : Z) : Z := if (b =? 0)%Z then 0%Z else Z.modulo a b.
(* jnp.repeat(l, n): every element n times *)
Definition jnp_repeat {T : Type} (l : list T) (n : nat) : list T := flat_map (fun v => repeat v n) l.
(* m[r][c] *)
Definition entry {T : Type} (m : list (list T)) (r c : nat) : option T :=
  match nth_error m r with Some row => nth_error row c | None => None end.

(* ---------------- flowjax/masks.py ---------------- *)
(* op(out_ranks[:, None], in_ranks) with op = ge if eq else gt : shape (len out, len in) *)
Definition rank_based_mask (in_ranks out_ranks : list Z) (eq : bool) : list (list bool) :=
  map (fun ro => map (fun ri => if eq then (ro >=? ri)%Z else (ro >? ri)%Z) in_ranks) out_ranks.

Definition ncols {T : Type} (m : list (list T)) : nat := match m with [] => O | r :: _ => length r end.
(* jax.scipy.linalg.block_diag: acc = first block; for every further block a: pad acc with a.cols zero columns on
   the right, pad a with acc.cols zero columns on the left, concatenate along the rows *)
Definition block_diag {T : Type} (z : T) (blocks : list (list (list T))) : list (list T) :=
  fold_left (fun acc a => map (fun row => row ++ repeat z (ncols a)) acc ++ map (fun row => repeat z (ncols acc) ++ row) a)
            blocks [].
(* block_diag of n_blocks all-True blocks of shape block_shape = (bh, bw) *)
Definition block_diag_mask (bh bw n : nat) : list (list bool) :=
  block_diag false (repeat (repeat (repeat true bw) bh) n).

(* mask.at[row0:, col0:col0+w].set(True) *)
Definition set_region (mask : list (list bool)) (row0 col0 w : nat) : list (list bool) :=
  map (fun rr => if (row0 <=? fst rr)%nat
                 then map (fun cv => if ((col0 <=? fst cv)%nat && (fst cv <? col0 + w)%nat) then true else snd cv)
                          (combine (seq 0 (length (snd rr))) (snd rr))
                 else snd rr)
      (combine (seq 0 (length mask)) mask).
(* for i in range(n_blocks): row_i = max(0, i-k)*bh; col_i = i*bw; mask[row_i:, col_i:col_i+bw] = True *)
Definition block_tril_mask (bh bw n : nat) (k : Z) : list (list bool) :=
  fold_left (fun mask i => set_region mask (Z.to_nat (Z.max 0 (Z.of_nat i - k)) * bh) (i * bw) bw)
            (seq 0 n) (repeat (repeat false (bw * n)) (bh * n)).

(* ---------------- ranks of MaskedAutoregressive.__init__ ---------------- *)
(* cond = None: unconditional; Some c: cond_dim = c *)
Definition maf_in_ranks (dim : nat) (cond : option nat) : list Z :=
  match cond with
  | None => arange dim
  | Some c => arange dim ++ repeat (-1)%Z c           (* hstack((arange(dim), -ones(cond_dim))) *)
  end.
Definition maf_hidden_ranks (dim : nat) (cond : option nat) (width : nat) : list Z :=
  match cond with
  | None => map (fun k => jnp_mod k (Z.of_nat dim - 1)) (arange width)          (* arange(width) % (dim-1) *)
  | Some _ => map (fun k => (jnp_mod k (Z.of_nat dim) - 1)%Z) (arange width)    (* (arange(width) % dim) - 1 *)
  end.
Definition maf_out_ranks (dim npar : nat) : list Z := jnp_repeat (arange dim) npar.

(* masked_autoregressive_mlp: ranks = [in] + [hidden]*depth + [out]; layer i gets
   rank_based_mask(ranks[i], ranks[i+1], eq = (i != len(layers)-1)), len(layers) = depth+1 *)
Definition mlp_masks (rin hid rout : list Z) (depth : nat) : list (list (list bool)) :=
  let ranks := rin :: repeat hid depth ++ [rout] in
  map (fun i => rank_based_mask (nth i ranks []) (nth (S i) ranks []) (negb (i =? depth)%nat)) (seq 0 (S depth)).
Definition maf_masks (dim : nat) (cond : option nat) (width depth npar : nat) : list (list (list bool)) :=
  mlp_masks (maf_in_ranks dim cond) (maf_hidden_ranks dim cond width) (maf_out_ranks dim npar) depth.

(* ---------------- boolean reachability (which input can influence which output) ---------------- *)
Definition orv (a b : list bool) : list bool := map (fun p : bool * bool => orb (fst p) (snd p)) (combine a b).
(* boolean matrix product m2 . m1 (m1 has ncols columns) *)
Definition bmm (m2 m1 : list (list bool)) (nc : nat) : list (list bool) :=
  map (fun row2 => fold_right (fun (p : bool * list bool) acc => if fst p then orv (snd p) acc else acc) (repeat false nc) (combine row2 m1)) m2.
Definition reach (masks : list (list (list bool))) (nc : nat) : list (list bool) :=
  match masks with [] => [] | m0 :: rest => fold_left (fun acc m => bmm m acc nc) rest m0 end.
(* OR of every group of n consecutive rows (all parameters of one coordinate): groups x nc *)
Fixpoint group_or (groups n nc : nat) (m : list (list bool)) : list (list bool) :=
  match groups with
  | O => []
  | S g => fold_right orv (repeat false nc) (firstn n m) :: group_or g n nc (skipn n m)
  end.
(* which x_j (columns 0..dim-1) and which condition entries (columns dim..) the parameters of coordinate i can
   depend on, according to the masks: dim rows, dim (+ cond_dim) columns *)
Definition maf_param_dep (dim : nat) (cond : option nat) (width depth npar : nat) : list (list bool) :=
  let nc := length (maf_in_ranks dim cond) in
  group_or dim npar nc (reach (maf_masks dim cond width depth npar) nc).
(* ... and y_i = transformer(params_i)(x_i) additionally on x_i itself *)
Definition maf_transform_dep (dim : nat) (cond : option nat) (width depth npar : nat) : list (list bool) :=
  map (fun ir => map (fun jb => (fst jb =? fst ir)%nat || snd jb) (combine (seq 0 (length (snd ir))) (snd ir)))
      (combine (seq 0 dim) (maf_param_dep dim cond width depth npar)).
(* Coupling: row i < d is the identity row; row i >= d depends on the first block, itself and every condition entry *)
Definition coupling_dep (d dim cdim : nat) : list (list bool) :=
  map (fun i => map (fun j => if (i <? d)%nat then (j =? i)%nat else ((j <? d)%nat || (j =? i)%nat || (dim <=? j)%nat))
                    (seq 0 (dim + cdim)))
      (seq 0 dim).

(* ---------------- the networks, over an arbitrary carrier ---------------- *)
Section Carrier.
  Context {A : Type} (zero : A) (add mul : A -> A -> A).

  (* w @ x for one row *)
  Definition dot (w x : list A) : A :=
    fold_right add zero (map (fun p : A * A => mul (fst p) (snd p)) (combine w x)).
  (* Where(mask, w, 0).unwrap() = jnp.where(mask, w, 0), one row / the whole matrix *)
  Definition maskrow (m : list bool) (w : list A) : list A :=
    map (fun p : bool * A => if fst p then snd p else zero) (combine m w).
  Definition where_mask (m : list (list bool)) (w : list (list A)) : list (list A) :=
    map (fun p => maskrow (fst p) (snd p)) (combine m w).
  (* eqx.nn.Linear: weight @ x + bias *)
  Definition linear (w : list (list A)) (b : list A) (x : list A) : list A :=
    map (fun p : list A * A => add (dot (fst p) x) (snd p)) (combine w b).

  (* eqx.nn.MLP.__call__ on the unwrapped masked_autoregressive_mlp: one (mask, raw weight, bias) per layer;
     every layer but the last is followed by the activation (final_activation is the identity).  The raw
     weights are masked AT EVALUATION (unwrap runs before every method), whatever values they hold.
     A missing weight matrix / bias is an empty one. *)
  Fixpoint masked_mlp (ws : list (list (list A))) (bs : list (list A)) (masks : list (list (list bool)))
           (act : A -> A) (x : list A) : list A :=
    match masks with
    | [] => x
    | m :: ms =>
        let h := linear (where_mask m (hd [] ws)) (hd [] bs) x in
        match ms with
        | [] => h
        | _ :: _ => masked_mlp (tl ws) (tl bs) ms act (map act h)
        end
    end.

  (* jnp.reshape(params, (rows, -1)) *)
  Fixpoint chunks (n k : nat) (l : list A) : list (list A) :=
    match n with O => [] | S n' => firstn k l :: chunks n' k (skipn k l) end.
  Definition reshape_rows (rows : nat) (l : list A) : list (list A) := chunks rows (length l / rows) l.

  (* MaskedAutoregressive: transformer_params = mlp(x if condition is None else hstack((x, condition))) *)
  Definition maf_params (dim : nat) (cond : option nat) (width depth npar : nat)
             (ws : list (list (list A))) (bs : list (list A)) (act : A -> A) (x c : list A) : list A :=
    masked_mlp ws bs (maf_masks dim cond width depth npar) act (match cond with None => x | Some _ => x ++ c end).
  (* transform: reshape to (dim, -1), one transformer per row, applied to x_i.
     tau params x_i stands for transformer_constructor(params).transform(x_i): ANY function. *)
  Definition maf_transform (tau : list A -> A -> A) (dim : nat) (cond : option nat) (width depth npar : nat)
             (ws : list (list (list A))) (bs : list (list A)) (act : A -> A) (x c : list A) : list A :=
    map (fun q : list A * A => tau (fst q) (snd q))
        (combine (reshape_rows dim (maf_params dim cond width depth npar ws bs act x c)) x).

  (* Coupling.transform with an ARBITRARY conditioner function (the unmasked eqx.nn.MLP in flowjax):
     x_cond, x_trans = x[:d], x[d:]; params = conditioner(x_cond or hstack((x_cond, condition)));
     y = hstack((x_cond, transformer(params).transform(x_trans))) *)
  Definition coupling_transform (tau : list A -> A -> A) (conditioner : list A -> list A) (d dim : nat)
             (x : list A) (c : option (list A)) : list A :=
    let x_cond := firstn d x in
    let x_trans := skipn d x in
    let p := conditioner (match c with None => x_cond | Some cv => x_cond ++ cv end) in
    x_cond ++ map (fun q : list A * A => tau (fst q) (snd q)) (combine (reshape_rows (dim - d) p) x_trans).

  (* ----- BlockAutoregressiveNetwork ----- *)
  (* block shapes (rows, cols) per layer: depth 0 -> [(1,1)], else [(bd,1), (bd,bd)*(depth-1), (1,bd)] *)
  Definition bnaf_block_shapes (depth bd : nat) : list (nat * nat) :=
    match depth with
    | O => [(1, 1)]
    | S d => (bd, 1) :: repeat (bd, bd) d ++ [(1, bd)]
    end.
  Definition bnaf_tril_masks (dim depth bd : nat) : list (list (list bool)) :=
    map (fun s => block_tril_mask (fst s) (snd s) dim 0) (bnaf_block_shapes depth bd).
  Definition bnaf_diag_masks (dim depth bd : nat) : list (list (list bool)) :=
    map (fun s => block_diag_mask (fst s) (snd s) dim) (bnaf_block_shapes depth bd).

  Definition vadd (a b : list A) : list A := map (fun p : A * A => add (fst p) (snd p)) (combine a b).
  (* transform: for i, layer in layers[:-1]: x = layer(x); if i == 0 and condition given: x += cond_linear(condition);
     x = activation(x).  return layers[-1](x).   cterm = cond_linear(condition), any vector.
     ws are the weights AFTER the softplus/weight-norm wrappers; the block-lower-triangular Where is applied here. *)
  Fixpoint bnaf_run (act : A -> A) (first : bool) (cterm : option (list A))
           (ws : list (list (list A))) (bs : list (list A)) (masks : list (list (list bool))) (x : list A) : list A :=
    match masks with
    | [] => x
    | m :: ms =>
        let h := linear (where_mask m (hd [] ws)) (hd [] bs) x in
        match ms with
        | [] => h
        | _ :: _ =>
            let h := match first, cterm with true, Some t => vadd h t | _, _ => h end in
            bnaf_run act false cterm (tl ws) (tl bs) ms (map act h)
        end
    end.
  Definition bnaf_transform (dim depth bd : nat) (ws : list (list (list A))) (bs : list (list A)) (act : A -> A)
             (cterm : option (list A)) (x : list A) : list A :=
    bnaf_run act true cterm ws bs (bnaf_tril_masks dim depth bd) x.

  (* The weight of block_autoregressive_linear after unwrap:
       v = where(diag, softplus(where(tril, w1, 0)), where(tril, w2, 0))
       W = softplus(scale_raw) * v / norm(v, axis=-1, keepdims=True)
     (w1 and w2 are the two occurrences of linear.weight in the wrapper tree: separate leaves once trained).
     sp, norm and div are abstract here; the tie runs them at floats (softplus, sqrt of the sum of squares, /). *)
  Section BnafWeight.
    Context (sp : A -> A) (norm : list A -> A) (div : A -> A -> A).
    Definition where3_row (m : list bool) (a b : list A) : list A :=
      map (fun p : bool * (A * A) => if fst p then fst (snd p) else snd (snd p)) (combine m (combine a b)).
    Definition bnaf_prenorm (tril diag : list (list bool)) (w1 w2 : list (list A)) : list (list A) :=
      map (fun p => where3_row (fst p) (fst (snd p)) (snd (snd p)))
          (combine diag (combine (map (map sp) (where_mask tril w1)) (where_mask tril w2))).
    Definition weight_norm (v : list (list A)) (scale_raw : list A) : list (list A) :=
      map (fun p : list A * A => let n := norm (fst p) in map (fun e => div (mul (sp (snd p)) e) n) (fst p))
          (combine v scale_raw).
    Definition bnaf_weight (tril diag : list (list bool)) (w1 w2 : list (list A)) (scale_raw : list A) : list (list A) :=
      weight_norm (bnaf_prenorm tril diag w1 w2) scale_raw.
  End BnafWeight.
End Carrier.
