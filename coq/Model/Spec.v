(* C07 -- the SPECIFICATION side: what the documentation (docstrings of flowjax/bijections/*.py and
   the cited papers) says each elementary bijection computes.  Written independently of
   Model/Leaves.v (which is shaped like the code) and deliberately shaped like the mathematics:
   textbook operand order, sums indexed by position, tanh as sinh/cosh, the spline as "the bin
   that contains x, then eq. 4", leaky relu as max/min.  Generic over NumOps (Model files never
   mention R); Proofs/LeafSpecP.v proves  code-shaped model = spec  at the reals.  No proofs here. *)
From Coq Require Import List ZArith Bool.
From FJ Require Import Model.Num.
Import ListNotations.

Section Spec.
  Context {A : Type} (O : NumOps A).
  Local Notation "a + b" := (n_add O a b).
  Local Notation "a - b" := (n_sub O a b).
  Local Notation "a * b" := (n_mul O a b).
  Local Notation "a / b" := (n_div O a b).
  Local Notation "- a" := (n_neg O a).
  Local Notation c := (Num.c O).

  (* ---- affine.py docstrings: "y = a*x + b", "y = x + c", "y = a*x" ---- *)
  Definition spec_affine (loc scale x : A) : A := scale * x + loc.
  Definition spec_loc (loc x : A) : A := x + loc.
  Definition spec_scale (scale x : A) : A := scale * x.

  (* ---- exp.py / softplus.py: "exponential transform", "y = log(1 + exp(x))" ---- *)
  Definition spec_exp (x : A) : A := n_exp O x.
  Definition spec_softplus (x : A) : A := n_log O (c 1 + n_exp O x).
  (* the inverse of softplus in closed form: x = log(exp(y) - 1), y > 0 *)
  Definition spec_softplus_inv (y : A) : A := n_log O (n_exp O y - c 1).

  (* ---- tanh.py: the hyperbolic tangent, sinh/cosh ---- *)
  Definition spec_sinh (x : A) : A := (n_exp O x - n_exp O (- x)) / c 2.
  Definition spec_cosh (x : A) : A := (n_exp O x + n_exp O (- x)) / c 2.
  Definition spec_tanh (x : A) : A := spec_sinh x / spec_cosh x.
  (* d/dx tanh x = 1 - tanh^2 x *)
  Definition spec_tanh_grad (x : A) : A := c 1 - spec_tanh x * spec_tanh x.
  (* LeakyTanh docstring: "Tanh bijection, with a linear transformation beyond +/- max_val.  The
     value and gradient of the linear segments are set to match tanh at +/- max_val": tanh inside
     (-m, m), the tangent line of tanh at m to the right, at -m to the left. *)
  Definition spec_tangent_line (a x : A) : A := spec_tanh a + spec_tanh_grad a * (x - a).
  Definition spec_leaky_tanh (m x : A) : A :=
    if n_ltb O (n_abs O x) m then spec_tanh x
    else if n_ltb O x (c 0) then spec_tangent_line (- m) x
    else spec_tangent_line m x.

  (* ---- rational_quadratic_spline.py: Durkan et al. 2019 (arXiv 1906.04032), eq. 4 ----
     In bin k, with xi = (x - x_k)/(x_{k+1} - x_k) and s_k = (y_{k+1} - y_k)/(x_{k+1} - x_k):
       g(x) = y_k + (y_{k+1} - y_k) [s_k xi^2 + d_k xi (1 - xi)] / [s_k + (d_{k+1} + d_k - 2 s_k) xi (1 - xi)] *)
  Definition spec_eq4 (xk xk1 yk yk1 dk dk1 x : A) : A :=
    let xi := (x - xk) / (xk1 - xk) in
    let s := (yk1 - yk) / (xk1 - xk) in
    yk + (yk1 - yk) * (s * (xi * xi) + dk * xi * (c 1 - xi))
         / (s + (dk1 + dk - c 2 * s) * xi * (c 1 - xi)).
  (* eq. 5: the derivative of eq. 4 *)
  Definition spec_eq5 (xk xk1 yk yk1 dk dk1 x : A) : A :=
    let xi := (x - xk) / (xk1 - xk) in
    let s := (yk1 - yk) / (xk1 - xk) in
    let den := s + (dk1 + dk - c 2 * s) * xi * (c 1 - xi) in
    (s * s) * (dk1 * (xi * xi) + c 2 * s * xi * (c 1 - xi) + dk * ((c 1 - xi) * (c 1 - xi))) / (den * den).
  (* the piecewise interpolant inside [x_0, x_K]: walk the knots from the left; x is evaluated in
     the first bin whose right end is >= x (the last bin takes what is left).  No searchsorted,
     no index arithmetic, no clip. *)
  Fixpoint spec_rqs_in (xs ys ds : list A) (x : A) : A :=
    match xs, ys, ds with
    | xk :: xs', yk :: ys', dk :: ds' =>
        match xs', ys', ds' with
        | xk1 :: xs'', yk1 :: _, dk1 :: _ =>
            match xs'' with
            | [] => spec_eq4 xk xk1 yk yk1 dk dk1 x
            | _ :: _ => if n_leb O x xk1 then spec_eq4 xk xk1 yk yk1 dk dk1 x
                        else spec_rqs_in xs' ys' ds' x
            end
        | _, _, _ => x
        end
    | _, _, _ => x
    end.
  (* "... the identity outside its interval" *)
  Definition spec_rqs (xs ys ds : list A) (lo hi x : A) : A :=
    if n_ltb O x lo || n_ltb O hi x then x else spec_rqs_in xs ys ds x.

  (* ---- TriangularAffine docstring: "Ax + b" -- entry i is  sum_j A_ij x_j + b_i ---- *)
  Fixpoint sigma (n : nat) (f : nat -> A) : A :=          (* sum_{j < n} f j *)
    match n with 0%nat => c 0 | S n' => sigma n' f + f n' end.
  Definition entry (m : list (list A)) (i j : nat) : A := nth j (nth i m []) (c 0).
  Definition spec_matvec_entry (m : list (list A)) (x : list A) (i : nat) : A :=
    sigma (length x) (fun j => entry m i j * nth j x (c 0)).
  Definition spec_tri (m : list (list A)) (loc x : list A) : list A :=
    map (fun i => spec_matvec_entry m x i + nth i loc (c 0)) (seq 0 (length x)).

  (* ---- planar.py docstring: y = x + u * act(w^T x + b); u constrained as in get_act_scale:
       u_hat = u + (m(w^T u)/k - w^T u) w / ||w||^2,   m(a) = -1 + log(1 + softplus(a)),
       k = 1 for tanh, k = max(1, negative_slope) for leaky relu ("leaky relu has slopes 1 and
       negative_slope: 1 + slope * w^T u > 0 is needed for both").
     (Rezende & Mohamed 2015, appendix A.1, has m(a) = -1 + log(1 + e^a) = -1 + softplus(a); the
     code nests one more log(1 + .).  Both give m > -1; the spec follows the code's m and
     LeafSpecP proves  w^T u_hat = m(w^T u)/k  and the invertibility conditions
     0 < 1 + w^T u_hat,  0 < 1 + s w^T u_hat.) ---- *)
  Definition spec_inner (a b : list A) : A := sigma (length a) (fun j => nth j a (c 0) * nth j b (c 0)).
  Definition spec_m (a : A) : A := c (-1) + n_log O (c 1 + spec_softplus a).
  Definition spec_k (ns : option A) : A :=
    match ns with None => c 1 | Some s => if n_leb O s (c 1) then c 1 else s end.
  Definition spec_planar_u (ns : option A) (w u : list A) : list A :=
    let wtu := spec_inner w u in
    map (fun i => nth i u (c 0) + (spec_m wtu / spec_k ns - wtu) * nth i w (c 0) / spec_inner w w)
        (seq 0 (length w)).
  (* leaky relu with negative slope s:  max(0, z) + s * min(0, z) *)
  Definition spec_leaky_relu (s z : A) : A := nmax O (c 0) z + s * nmin O (c 0) z.
  Definition spec_act (ns : option A) (z : A) : A :=
    match ns with None => spec_tanh z | Some s => spec_leaky_relu s z end.
  Definition spec_planar (ns : option A) (w u : list A) (b : A) (x : list A) : list A :=
    let uh := spec_planar_u ns w u in
    let a := spec_act ns (spec_inner w x + b) in
    map (fun i => nth i x (c 0) + nth i uh (c 0) * a) (seq 0 (length x)).
End Spec.
