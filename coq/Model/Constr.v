(* C11 -- the reparameterisations that keep constrained parameters valid, each exactly as coded in
   /repo/flowjax (wrappers.py, bijections/{affine,softplus,rational_quadratic_spline,planar,utils}.py,
   distributions.py, flows.py).  Executable, generic over [NumOps A], no proofs, no Reals.
   Vectors are lists, matrices lists of rows.

   "raw" always means the unconstrained trainable array that is stored in the object
   (BijectionReparam.arr, Lambda.args[0], Planar.params, WeightNormalization.weight);
   "_init" functions are what the constructor stores for a given constructor argument;
   "_unwrap"/plain functions are what flowjax.wrappers.unwrap produces from the raw value;
   "_rejects" functions are the boolean model of the constructor's checks (true = raises). *)
From Coq Require Import List ZArith Bool.
From FJ Require Import Model.Num.
Import ListNotations.

Section Constr.
  Context {A : Type} (O : NumOps A).
  Local Notation add := (n_add O). Local Notation sub := (n_sub O). Local Notation mul := (n_mul O).
  Local Notation div := (n_div O). Local Notation neg := (n_neg O). Local Notation k := (n_ofZ O).

  (* ---- bijections/softplus.py::SoftPlus ---- *)
  (* transform: jax.nn.softplus(x) *)
  Definition softplus (x : A) : A := n_softplus O x.
  (* inverse: jnp.log(-jnp.expm1(-y)) + y *)
  Definition softplus_inv (y : A) : A := add (n_log O (neg (n_expm1 O (neg y)))) y.

  (* ---- wrappers.py::BijectionReparam(arr, SoftPlus()) : Affine.scale, Scale.scale,
          TriangularAffine diagonal, _StandardStudentT.df, WeightNormalization.scale ---- *)
  Definition pos_init (v : list A) : list A := map softplus_inv v.       (* __init__: bijection.inverse(arr) *)
  Definition pos_unwrap (raw : list A) : list A := map softplus raw.     (* unwrap: bijection.transform(arr) *)
  (* jnp.isfinite *)
  Definition finite (x : A) : bool := n_eqb O (sub x x) (k 0).
  (* _apply_inverse_and_check_valid with SoftPlus: a finite entry whose inverse image is not finite
     raises; softplus_inv of a finite y is non-finite exactly when y <= 0 (log of 0 or of a negative) *)
  Definition pos_rejects (v : list A) : bool := existsb (fun a => finite a && n_leb O a (k 0)) v.

  (* ---- distributions.py ---- *)
  (* _StandardStudentT.__init__: error_if(df <= 0) and then BijectionReparam(df, SoftPlus()) *)
  Definition df_rejects (df : list A) : bool := existsb (fun a => n_leb O a (k 0)) df || pos_rejects df.
  (* Uniform(minval, maxval): error_if(maxval <= minval); Affine(loc=minval, scale=maxval-minval);
     maxval property = loc + unwrap(scale) *)
  Definition uniform_rejects (lo hi : A) : bool := n_leb O hi lo || pos_rejects [sub hi lo].
  Definition uniform_init (lo hi : A) : A := softplus_inv (sub hi lo).
  Definition uniform_maxval (lo raw : A) : A := add lo (softplus raw).
  (* Exponential(rate): Scale(1 / rate); rate property = 1 / unwrap(scale) *)
  Definition rate_rejects (r : A) : bool := pos_rejects [div (k 1) r].
  Definition rate_init (r : A) : A := softplus_inv (div (k 1) r).
  Definition rate_of (raw : A) : A := div (k 1) (softplus raw).
  (* VmapMixture: error_if(weights <= 0); Lambda(log_softmax, jnp.log(weights)).
     jax.nn.log_softmax: shifted = x - max(x); shifted - log(sum(exp(shifted))) *)
  Fixpoint maxl (m : A) (l : list A) : A := match l with [] => m | x :: t => maxl (nmax O m x) t end.
  Definition max_of (l : list A) : A := match l with [] => k 0 | x :: t => maxl x t end.
  Definition log_softmax (l : list A) : list A :=
    let m := max_of l in
    let sh := map (fun x => sub x m) l in
    let lse := n_log O (sum O (map (n_exp O) sh)) in
    map (fun s => sub s lse) sh.
  Definition mix_rejects (w : list A) : bool := existsb (fun a => n_leb O a (k 0)) w.
  Definition mix_init (w : list A) : list A := map (n_log O) w.
  Definition mix_logw (raw : list A) : list A := log_softmax raw.         (* unwrap(log_normalized_weights) *)
  Definition mix_weights (raw : list A) : list A := map (n_exp O) (log_softmax raw).

  (* ---- flows.py::_affine_with_min_scale : BijectionReparam(1, Chain([SoftPlus(), Loc(min_scale)])) ---- *)
  Definition min_scale_init (ms : A) : A := softplus_inv (sub (k 1) ms). (* Chain.inverse(1): Loc^-1 then SoftPlus^-1 *)
  Definition min_scale_unwrap (ms raw : A) : A := add (softplus raw) ms.
  (* here arr = 1 is always finite, so a non-finite inverse image (1 - ms non-finite or <= 0) always raises *)
  Definition min_scale_rejects (ms : A) : bool := let y := sub (k 1) ms in negb (finite y) || n_leb O y (k 0).

  (* ---- rational_quadratic_spline.py::_real_to_increasing_on_interval ---- *)
  (* jax.nn.softmax: unnormalized = exp(x - max(x)); unnormalized / sum(unnormalized) *)
  Definition softmax (l : list A) : list A :=
    let m := max_of l in
    let e := map (fun x => n_exp O (sub x m)) l in
    let z := sum O e in
    map (fun v => div v z) e.
  Definition ofnat (n : nat) : A := n_ofZ O (Z.of_nat n).
  (* widths = (widths + softmax_adjust / widths.size) / (1 + softmax_adjust) *)
  Definition adjust (adj : A) (ws : list A) : list A :=
    let a := div adj (ofnat (length ws)) in
    map (fun w => div (add w a) (add (k 1) adj)) ws.
  (* widths = widths.at[0].set(widths[0] / 2) *)
  Definition halve_first (ws : list A) : list A := match ws with [] => [] | w :: t => div w (k 2) :: t end.
  (* jnp.cumsum *)
  Fixpoint cumsum_from (b : A) (l : list A) : list A :=
    match l with [] => [] | x :: t => add b x :: cumsum_from (add b x) t end.
  Definition cumsum (l : list A) : list A := cumsum_from (k 0) l.
  (* pos = interval[0] + (interval[1] - interval[0]) * cumsum(widths); pad with the interval ends *)
  Definition knots (lo hi adj : A) (raw : list A) : list A :=
    let ws := halve_first (adjust adj (softmax raw)) in
    let scale := sub hi lo in
    lo :: map (fun cs => add lo (mul scale cs)) (cumsum ws) ++ [hi].
  (* if softmax_adjust < 0: raise ValueError  (raised when the Lambda is first unwrapped) *)
  Definition knots_rejects (adj : A) : bool := n_ltb O adj (k 0).
  (* derivatives = softplus(arr) + min_derivative; initial arr = log(exp(1 - min_derivative) - 1) *)
  Definition derivs (md : A) (raw : list A) : list A := map (fun x => add (softplus x) md) raw.
  Definition deriv_init (md : A) : A := n_log O (sub (n_exp O (sub (k 1) md)) (k 1)).

  (* ---- planar.py::_UnconditionalPlanar ---- *)
  Definition sq (x : A) : A := mul x x.
  (* jnp.linalg.norm of a vector *)
  Definition norm (w : list A) : A := n_sqrt O (sum O (map sq w)).
  (* get_act_scale: wtu = u @ w; m = -1 + log(1 + softplus(wtu));
     if negative_slope is not None: m = m / max(1.0, negative_slope)      (fix e65a946)
     u + (m - wtu) * w / norm(w) ** 2 *)
  Definition planar_m (wtu : A) : A := add (k (-1)) (n_log O (add (k 1) (softplus wtu))).
  Definition planar_mk (slope : option A) (wtu : A) : A :=
    match slope with None => planar_m wtu | Some s => div (planar_m wtu) (nmax O (k 1) s) end.
  Definition planar_act_scale (slope : option A) (w u : list A) : list A :=
    let wtu := dot O u w in
    let m := planar_mk slope wtu in
    let n2 := sq (norm w) in
    map (fun p => add (fst p) (div (mul (sub m wtu) (snd p)) n2)) (combine u w).
  (* the quantity the constraint is about: w . u_hat *)
  Definition planar_wu (slope : option A) (w u : list A) : A := dot O w (planar_act_scale slope w u).
  (* inverse_and_log_det: us = u_hat * slope; denominator = 1 + w @ us   (s = 1 or negative_slope) *)
  Definition planar_denom_with (uhat : list A) (s : A) (w : list A) : A :=
    add (k 1) (dot O w (map (fun x => mul x s) uhat)).
  Definition planar_denom (slope s : A) (w u : list A) : A := planar_denom_with (planar_act_scale (Some slope) w u) s w.
  (* the formula before the fix: no division by max(1, negative_slope) *)
  Definition planar_denom_old (slope : A) (w u : list A) : A := planar_denom_with (planar_act_scale None w u) slope w.
  (* if negative_slope <= 0: raise ValueError  (raised by _UnconditionalPlanar.__init__, i.e. at first use) *)
  Definition planar_rejects (s : A) : bool := n_leb O s (k 0).

  (* ---- wrappers.py::WeightNormalization ---- *)
  (* unwrap: scale * weight / norm(weight, axis=-1, keepdims=True), row by row *)
  Definition wn_row (s : A) (row : list A) : list A :=
    let n := norm row in map (fun x => div (mul s x) n) row.
  Definition wn_unwrap (raw_scale : list A) (rows : list (list A)) : list (list A) :=
    map (fun p => wn_row (softplus (fst p)) (snd p)) (combine raw_scale rows).
  (* __init__: scale = BijectionReparam(1 / norm(weight), SoftPlus()) *)
  Definition wn_init (rows : list (list A)) : list A := map (fun r => softplus_inv (div (k 1) (norm r))) rows.

  (* ---- affine.py::TriangularAffine (and MultivariateNormal = TriangularAffine(loc, cholesky(cov))) ---- *)
  Definition getm (arr : list (list A)) (i j : nat) : A := nth j (nth i arr []) (k 0).
  (* _to_triangular(diag, arr) = jnp.diag(diag) + (tril(arr, -1) | triu(arr, 1)) *)
  Definition tri_entry (lower : bool) (diag : list A) (arr : list (list A)) (i j : nat) : A :=
    add (if Nat.eqb i j then nth i diag (k 0) else k 0)
        (if (if lower then Nat.ltb j i else Nat.ltb i j) then getm arr i j else k 0).
  Definition tri_of (lower : bool) (diag : list A) (arr : list (list A)) : list (list A) :=
    let n := length arr in
    map (fun i => map (fun j => tri_entry lower diag arr i j) (seq 0 n)) (seq 0 n).
  Definition diag_of (arr : list (list A)) : list A := map (fun i => getm arr i i) (seq 0 (length arr)).
  Definition tri_init (arr : list (list A)) : list A := pos_init (diag_of arr).   (* BijectionReparam(jnp.diag(arr), SoftPlus()) *)
  Definition tri_unwrap (lower : bool) (rawdiag : list A) (arr : list (list A)) : list (list A) :=
    tri_of lower (pos_unwrap rawdiag) arr.
  Definition tri_rejects (arr : list (list A)) : bool := pos_rejects (diag_of arr).
  (* MultivariateNormal.covariance = L @ L.T *)
  Definition mmulT (L : list (list A)) : list (list A) := map (fun ri => map (fun rj => dot O ri rj) L) L.
End Constr.

(* ---- bijections/utils.py::Permute.__init__ : error_if(permutation.ravel().sort() != arange(size)) ---- *)
Fixpoint insertZ (x : Z) (l : list Z) : list Z :=
  match l with [] => [x] | y :: t => if (x <=? y)%Z then x :: l else y :: insertZ x t end.
Definition sortZ (l : list Z) : list Z := fold_right insertZ [] l.
Definition rangeZ (n : nat) : list Z := map Z.of_nat (seq 0 n).
Fixpoint list_eqbZ (a b : list Z) : bool :=
  match a, b with
  | [], [] => true
  | x :: s, y :: t => (x =? y)%Z && list_eqbZ s t
  | _, _ => false
  end.
Definition perm_rejects (p : list Z) : bool := negb (list_eqbZ (sortZ p) (rangeZ (length p))).
