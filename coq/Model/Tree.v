(* Model of flowjax/wrappers.py (unwrap, the five wrapper classes, non_trainable), of the parameter
   partition used by train/data_fit.py, train/variational_fit.py and utils.get_ravelled_pytree_constructor
   (eqx.partition with filter is_inexact_array and NonTrainable treated as a leaf; eqx.combine), of
   train_utils.step as far as the parameter / static halves are concerned, and of the pytree algebra
   (flatten / unflatten, leaf serialisation) that equinox modules live in.  Executable, no proofs.

   A pytree is
     Arr kind v    an array-like leaf (jax / numpy array, or a python bool / int / float)
     Static s      any other leaf (callables, strings, ...)
     Hole          python None (a node without children; also what eqx.partition leaves behind)
     Node tag l    a container or eqx.Module: tag = class + static fields + keys, l = children in
                   flattening order
     W k l         an AbstractUnwrappable; l = its dynamic fields in field order, INCLUDING _dummy
                   for the classes that have one (BijectionReparam, Where, Lambda).
   Part 1 is generic in the leaf values V, the static payload S, the tags T and the wrapper labels K,
   and in what applying a wrapper to its (already unwrapped) children returns.  Part 2 instantiates the
   wrappers' value semantics generically over NumOps (run with OCaml floats). *)
From Coq Require Import List ZArith Bool Arith.
From FJ Require Import Model.Num.
Import ListNotations.

Section OptionList.
  Context {X Y : Type} (f : X -> option Y).
  Fixpoint mapM (l : list X) : option (list Y) :=
    match l with
    | [] => Some []
    | x :: r => match f x with
                | None => None
                | Some y => match mapM r with None => None | Some ys => Some (y :: ys) end
                end
    end.
End OptionList.

(* leaf kinds: jax/numpy arrays of floating, integer, boolean dtype; python float, int, bool *)
Inductive akind := KFloat | KInt | KBool | KPyFloat | KPyInt | KPyBool.
(* eqx.is_inexact_array *)
Definition inexact (k : akind) : bool := match k with KFloat => true | _ => false end.
(* eqx.is_array *)
Definition is_array (k : akind) : bool := match k with KFloat | KInt | KBool => true | _ => false end.
Definition akind_eqb (a b : akind) : bool :=
  match a, b with
  | KFloat, KFloat | KInt, KInt | KBool, KBool | KPyFloat, KPyFloat | KPyInt, KPyInt | KPyBool, KPyBool => true
  | _, _ => false
  end.

Section Tree.
  Variables V Sp T K : Type.

  Inductive tree :=
  | Arr (k : akind) (v : V)
  | Static (s : Sp)
  | Hole
  | Node (tag : T) (l : list tree)
  | W (k : K) (l : list tree).

  Definition is_leaf (t : tree) : bool := match t with Arr _ _ | Static _ => true | _ => false end.

  (* no wrapper node anywhere *)
  Fixpoint cleanb (t : tree) : bool :=
    match t with Node _ l => forallb cleanb l | W _ _ => false | _ => true end.

  (* ---------------- wrappers.unwrap ----------------
     tree_map with is_leaf = isinstance(., AbstractUnwrappable); at a wrapper, recursive_unwrap:
     flatten one level, unwrap the children, rebuild, then (vectorised) .unwrap() -- [apply]. *)
  Variable apply : K -> list tree -> option tree.

  Fixpoint unwrap (t : tree) : option tree :=
    match t with
    | Node tag l => match mapM unwrap l with Some l' => Some (Node tag l') | None => None end
    | W k l => match mapM unwrap l with Some l' => apply k l' | None => None end
    | _ => Some t
    end.

  (* instrumented: also returns the labels of the wrappers whose .unwrap() actually ran, in order *)
  Variable Id : Type.
  Variable id_of : K -> Id.
  Fixpoint unwrap_i (t : tree) : option (tree * list Id) :=
    match t with
    | Node tag l => match mapM unwrap_i l with
                    | Some rs => Some (Node tag (map fst rs), concat (map snd rs))
                    | None => None
                    end
    | W k l => match mapM unwrap_i l with
               | Some rs => match apply k (map fst rs) with
                            | Some u => Some (u, concat (map snd rs) ++ [id_of k])
                            | None => None
                            end
               | None => None
               end
    | _ => Some (t, [])
    end.
  Definition unwrap_trace (t : tree) : option (list Id) := option_map snd (unwrap_i t).

  (* every wrapper node of the tree, parents before children *)
  Fixpoint wrapper_ids (t : tree) : list Id :=
    match t with
    | Node _ l => flat_map wrapper_ids l
    | W k l => id_of k :: flat_map wrapper_ids l
    | _ => []
    end.
  (* ... and children before parents (inside-out) *)
  Fixpoint postorder_ids (t : tree) : list Id :=
    match t with
    | Node _ l => flat_map postorder_ids l
    | W k l => flat_map postorder_ids l ++ [id_of k]
    | _ => []
    end.

  (* a method of a bijection / distribution: the body [m] runs on unwrap(self) *)
  Definition run_method {X Y : Type} (m : tree -> X -> Y) (self : tree) (x : X) : option Y :=
    match unwrap self with Some u => Some (m u x) | None => None end.

  (* ---------------- eqx.partition(t, is_inexact_array, is_leaf = isinstance(., NonTrainable)) ------------- *)
  Variable is_nt : K -> bool.

  Fixpoint part (t : tree) : tree * tree :=
    match t with
    | Arr k v => if inexact k then (t, Hole) else (Hole, t)
    | Static _ => (Hole, t)
    | Hole => (Hole, Hole)
    | Node tag l => let ps := map part l in (Node tag (map fst ps), Node tag (map snd ps))
    | W k l => if is_nt k then (Hole, t)
               else let ps := map part l in (W k (map fst ps), W k (map snd ps))
    end.

  (* eqx.combine(a, b): tree_map over a with None as a leaf; the first non-None wins *)
  Fixpoint comb (a b : tree) : tree :=
    match a with
    | Hole => b
    | Node tag la =>
        match b with
        | Node _ lb => Node tag ((fix go (la lb : list tree) : list tree :=
                                    match la, lb with
                                    | x :: la', y :: lb' => comb x y :: go la' lb'
                                    | _, _ => la
                                    end) la lb)
        | _ => a
        end
    | W k la =>
        match b with
        | W _ lb => W k ((fix go (la lb : list tree) : list tree :=
                            match la, lb with
                            | x :: la', y :: lb' => comb x y :: go la' lb'
                            | _, _ => la
                            end) la lb)
        | _ => a
        end
    | _ => a
    end.

  (* train_utils.step: the optimiser acts on the params half only *)
  Definition step (upd : tree -> tree) (ps : tree * tree) : tree * tree := (upd (fst ps), snd ps).
  (* both training loops: partition, any sequence of updates, combine *)
  Definition fit (upds : list (tree -> tree)) (t : tree) : tree :=
    let ps := fold_left (fun ps u => step u ps) upds (part t) in comb (fst ps) (snd ps).

  (* positions: child indices from the root *)
  Fixpoint subtree_at (p : list nat) (t : tree) : option tree :=
    match p with
    | [] => Some t
    | i :: p' => match t with
                 | Node _ l | W _ l => match nth_error l i with Some c => subtree_at p' c | None => None end
                 | _ => None
                 end
    end.
  (* the leaf at position p is trainable: an inexact array with no NonTrainable on the way *)
  Fixpoint trainable_at (p : list nat) (t : tree) : bool :=
    match p with
    | [] => match t with Arr k _ => inexact k | _ => false end
    | i :: p' => match t with
                 | Node _ l => match nth_error l i with Some c => trainable_at p' c | None => false end
                 | W k l => if is_nt k then false
                            else match nth_error l i with Some c => trainable_at p' c | None => false end
                 | _ => false
                 end
    end.

  (* wrappers.non_trainable: wrap every inexact array leaf, NonTrainable nodes left alone *)
  Variable nt_label : K.
  Fixpoint non_trainable (t : tree) : tree :=
    match t with
    | Arr k v => if inexact k then W nt_label [t] else t
    | Node tag l => Node tag (map non_trainable l)
    | W k l => if is_nt k then t else W k (map non_trainable l)
    | _ => t
    end.

  (* ---------------- pytree algebra (C14) ---------------- *)
  Inductive tdef := DLeaf | DHole | DNode (tag : T) (l : list tdef) | DW (k : K) (l : list tdef).
  Fixpoint treedef (t : tree) : tdef :=
    match t with
    | Arr _ _ | Static _ => DLeaf
    | Hole => DHole
    | Node tag l => DNode tag (map treedef l)
    | W k l => DW k (map treedef l)
    end.
  Fixpoint leaves (t : tree) : list tree :=
    match t with
    | Arr _ _ | Static _ => [t]
    | Hole => []
    | Node _ l | W _ l => flat_map leaves l
    end.
  (* jax.tree_util.tree_unflatten: consumes the leaves left to right *)
  Fixpoint unflatten (d : tdef) (ls : list tree) : option (tree * list tree) :=
    match d with
    | DLeaf => match ls with x :: r => Some (x, r) | [] => None end
    | DHole => Some (Hole, ls)
    | DNode tag l =>
        match (fix go (l : list tdef) (ls : list tree) : option (list tree * list tree) :=
                 match l with
                 | [] => Some ([], ls)
                 | c :: cs => match unflatten c ls with
                              | Some (c', r) => match go cs r with
                                                | Some (cs', r') => Some (c' :: cs', r')
                                                | None => None
                                                end
                              | None => None
                              end
                 end) l ls with
        | Some (l', r) => Some (Node tag l', r)
        | None => None
        end
    | DW k l =>
        match (fix go (l : list tdef) (ls : list tree) : option (list tree * list tree) :=
                 match l with
                 | [] => Some ([], ls)
                 | c :: cs => match unflatten c ls with
                              | Some (c', r) => match go cs r with
                                                | Some (cs', r') => Some (c' :: cs', r')
                                                | None => None
                                                end
                              | None => None
                              end
                 end) l ls with
        | Some (l', r) => Some (W k l', r)
        | None => None
        end
    end.

  (* eqx.tree_serialise_leaves: array-like leaves are written in leaf order, other leaves are skipped;
     eqx.tree_deserialise_leaves(like): array-like leaves of [like] are read back (kind and shape/dtype
     [same_meta] must match), everything else is taken from [like] *)
  Variable same_meta : V -> V -> bool.
  Definition serialise (t : tree) : list (akind * V) :=
    flat_map (fun x => match x with Arr k v => [(k, v)] | _ => [] end) (leaves t).
  Fixpoint deserialise (like : tree) (st : list (akind * V)) : option (tree * list (akind * V)) :=
    match like with
    | Arr k v => match st with
                 | (k', v') :: r => if akind_eqb k k' && same_meta v v' then Some (Arr k v', r) else None
                 | [] => None
                 end
    | Static _ | Hole => Some (like, st)
    | Node tag l =>
        match (fix go (l : list tree) (st : list (akind * V)) : option (list tree * list (akind * V)) :=
                 match l with
                 | [] => Some ([], st)
                 | c :: cs => match deserialise c st with
                              | Some (c', r) => match go cs r with
                                                | Some (cs', r') => Some (c' :: cs', r')
                                                | None => None
                                                end
                              | None => None
                              end
                 end) l st with
        | Some (l', r) => Some (Node tag l', r)
        | None => None
        end
    | W k l =>
        match (fix go (l : list tree) (st : list (akind * V)) : option (list tree * list (akind * V)) :=
                 match l with
                 | [] => Some ([], st)
                 | c :: cs => match deserialise c st with
                              | Some (c', r) => match go cs r with
                                                | Some (cs', r') => Some (c' :: cs', r')
                                                | None => None
                                                end
                              | None => None
                              end
                 end) l st with
        | Some (l', r) => Some (W k l', r)
        | None => None
        end
    end.

  (* a module is well formed when no array hides in a static position: here, no Static leaf is an
     array.  [is_array_payload] says whether a static payload is (or contains) an array. *)
  Variable is_array_payload : Sp -> bool.
  Fixpoint wf_module (t : tree) : bool :=
    match t with
    | Static s => negb (is_array_payload s)
    | Node _ l | W _ l => forallb wf_module l
    | _ => true
    end.
End Tree.

Arguments Arr {V Sp T K}. Arguments Static {V Sp T K}. Arguments Hole {V Sp T K}.
Arguments Node {V Sp T K}. Arguments W {V Sp T K}.
Arguments DLeaf {T K}. Arguments DHole {T K}. Arguments DNode {T K}. Arguments DW {T K}.

(* ======================= Part 2: values ======================= *)
Record tensor (A : Type) := mkT { tshape : list nat; tdata : list A }.
Arguments mkT {A}. Arguments tshape {A}. Arguments tdata {A}.

Inductive wkind := NonTrainable | BijReparam | Where | WeightNorm | Lambda.
(* bijections understood inside BijectionReparam (elementwise ones; all that flowjax itself uses there) *)
Inductive bcls := BExp | BSoftPlus | BTanh | BLoc | BScale | BAffine | BChain.
(* the functions the harness puts inside Lambda *)
Inductive fid := FExp | FAdd1 | FNeg | FAdd | FSum | FMul | FPair | FZero.

Definition tsize (sh : list nat) : nat := fold_right Nat.mul 1 sh.

(* NumPy broadcasting of two shapes (aligned at the trailing axis); shapes given reversed *)
Fixpoint bshape_rev (a b : list nat) : option (list nat) :=
  match a, b with
  | [], _ => Some b
  | _, [] => Some a
  | x :: a', y :: b' =>
      match bshape_rev a' b' with
      | None => None
      | Some r => if x =? y then Some (x :: r) else if x =? 1 then Some (y :: r)
                  else if y =? 1 then Some (x :: r) else None
      end
  end.
Definition bshape (a b : list nat) : option (list nat) :=
  match bshape_rev (rev a) (rev b) with Some r => Some (rev r) | None => None end.
(* flat (C order) index k of the broadcast result -> flat index into an operand of shape s (reversed shapes):
   size-1 axes are pinned to 0, missing leading axes are dropped *)
Fixpoint proj_rev (o s : list nat) (k : nat) : nat :=
  match o, s with
  | d :: o', e :: s' => (if e =? 1 then 0 else k mod d) + e * proj_rev o' s' (k / d)
  | _, _ => 0
  end.
Fixpoint suffixb (s full : list nat) : bool :=   (* on reversed shapes: s is a prefix of full *)
  match s, full with
  | [], _ => true
  | x :: s', y :: f' => (x =? y) && suffixb s' f'
  | _, [] => false
  end.
Definition is_suffix (s full : list nat) : bool := suffixb (rev s) (rev full).

Section Num.
  Context {A : Type} (O : NumOps A).
  Variables Sp T : Type.
  Definition wlabel := (Z * wkind)%type.       (* label (serialiser-assigned number), class *)
  Definition vtree := tree (tensor A) Sp T wlabel.

  Definition bcast_to (o : list nat) (t : tensor A) : tensor A :=
    mkT o (map (fun k => nth (proj_rev (rev o) (rev (tshape t)) k) (tdata t) (c O 0)) (seq 0 (tsize o))).
  Definition tmap (f : A -> A) (t : tensor A) : tensor A := mkT (tshape t) (map f (tdata t)).
  Fixpoint map2 (f : A -> A -> A) (a b : list A) : list A :=
    match a, b with x :: a', y :: b' => f x y :: map2 f a' b' | _, _ => [] end.
  Definition zipw (f : A -> A -> A) (a b : tensor A) : option (tensor A) :=
    match bshape (tshape a) (tshape b) with
    | Some o => Some (mkT o (map2 f (tdata (bcast_to o a)) (tdata (bcast_to o b))))
    | None => None
    end.
  Fixpoint map3 (f : A -> A -> A -> A) (a b d : list A) : list A :=
    match a, b, d with x :: a', y :: b', z :: d' => f x y z :: map3 f a' b' d' | _, _, _ => [] end.
  (* jnp.where(c, x, y) *)
  Definition where3 (cnd x y : tensor A) : option (tensor A) :=
    match bshape (tshape cnd) (tshape x) with
    | Some o1 => match bshape o1 (tshape y) with
                 | Some o => Some (mkT o (map3 (fun cv xv yv => if n_eqb O cv (c O 0) then yv else xv)
                                               (tdata (bcast_to o cnd)) (tdata (bcast_to o x)) (tdata (bcast_to o y))))
                 | None => None
                 end
    | None => None
    end.
  Definition is_floatk (k : akind) : bool := match k with KFloat | KPyFloat => true | _ => false end.
  Definition is_intk (k : akind) : bool := match k with KInt | KPyInt => true | _ => false end.
  (* dtype class of jnp.where(c, x, y) / x + y *)
  Definition promote (a b : akind) : akind :=
    if is_floatk a || is_floatk b then KFloat else if is_intk a || is_intk b then KInt else KBool.

  Fixpoint chunks (n m : nat) (l : list A) : list (list A) :=
    match n with 0 => [] | S n1 => firstn m l :: chunks n1 m (skipn m l) end.
  (* jnp.linalg.norm(w, axis=-1, keepdims=True) *)
  Definition row_norms (w : tensor A) : option (tensor A) :=
    match rev (tshape w) with
    | [] => None
    | m :: pre => let n := tsize pre in
                  Some (mkT (rev (1 :: pre))
                            (map (fun row => n_sqrt O (sum O (map (fun x => n_mul O x x) row))) (chunks n m (tdata w))))
    end.
  (* WeightNormalization.unwrap: self.scale * self.weight / weight_norms *)
  Definition weight_norm (w s : tensor A) : option (tensor A) :=
    match row_norms w with
    | Some nrm => match zipw (n_mul O) s w with Some sw => zipw (n_div O) sw nrm | None => None end
    | None => None
    end.

  (* ---- the bijection of a BijectionReparam: bijection._vectorize.transform(arr) ----
     [bij_of tag] = the class and the positions, among the module's children, of the fields it needs: shape (the
     parameter-free classes; a tuple of python ints, which IS a pytree child), loc / scale / loc, scale / bijections.
     The serialiser reads the positions off the dataclass. *)
  Variable bij_of : T -> option (bcls * list nat).
  Definition guard_suffix (sh : list nat) (x : tensor A) (r : option (tensor A)) : option (tensor A) :=
    if is_suffix sh (tshape x) then r else None.
  Definition field (ps : list nat) (j : nat) (l : list vtree) : vtree := nth (nth j ps 0) l Hole.
  (* the python ints of a shape tuple *)
  Definition shape_vals (t : vtree) : option (list A) :=
    match t with
    | Node _ l => mapM (fun x => match x with Arr _ v => match tdata v with [a] => Some a | _ => None end | _ => None end) l
    | _ => None
    end.
  Fixpoint dims_match (ds : list nat) (vs : list A) : bool :=      (* both reversed: vs is a prefix of ds *)
    match ds, vs with
    | _, [] => true
    | d :: ds', v :: vs' => n_eqb O (c O (Z.of_nat d)) v && dims_match ds' vs'
    | [], _ :: _ => false
    end.
  (* jnp.vectorize with the signature built from bijection.shape: the trailing axes of x must equal it *)
  Definition guard_static (sh : vtree) (x : tensor A) (r : option (tensor A)) : option (tensor A) :=
    match shape_vals sh with
    | Some vs => if dims_match (rev (tshape x)) (rev vs) then r else None
    | None => None
    end.
  Fixpoint bij_fwd (b : vtree) (x : tensor A) : option (tensor A) :=
    match b with
    | Node tag l =>
        match bij_of tag with
        | Some (BExp, ps) => guard_static (field ps 0 l) x (Some (tmap (n_exp O) x))
        | Some (BSoftPlus, ps) => guard_static (field ps 0 l) x (Some (tmap (n_softplus O) x))
        | Some (BTanh, ps) => guard_static (field ps 0 l) x (Some (tmap (n_tanh O) x))
        | Some (BLoc, ps) => match field ps 0 l with
                                  | Arr _ loc => guard_suffix (tshape loc) x (zipw (n_add O) x loc)
                                  | _ => None
                                  end
        | Some (BScale, ps) => match field ps 0 l with
                                    | Arr _ s => guard_suffix (tshape s) x (zipw (n_mul O) x s)
                                    | _ => None
                                    end
        | Some (BAffine, ps) => match field ps 0 l, field ps 1 l with
                                     | Arr _ loc, Arr _ s =>
                                         guard_suffix (tshape loc) x
                                           (match zipw (n_mul O) x s with Some xs => zipw (n_add O) xs loc | None => None end)
                                     | _, _ => None
                                     end
        | Some (BChain, ps) =>
            (fix pick (j : nat) (l : list vtree) : option (tensor A) :=
               match l with
               | [] => None
               | c :: r =>
                   if j =? nth 0 ps 0 then
                     match c with
                     | Node _ bs =>
                         (fix go (bs : list vtree) (x : tensor A) : option (tensor A) :=
                            match bs with
                            | [] => Some x
                            | b1 :: r => match bij_fwd b1 x with Some y => go r y | None => None end
                            end) bs x
                     | _ => None
                     end
                   else pick (S j) r
               end) 0 l
        | None => None
        end
    | _ => None
    end.

  (* ---- the functions inside Lambda ---- *)
  Variable fn_of : Sp -> option fid.
  Variable tuple_tag : T.
  Definition fn_apply (f : fid) (args : list vtree) : option vtree :=
    match f, args with
    | FExp, [Arr _ x] => Some (Arr KFloat (tmap (n_exp O) x))
    | FAdd1, [Arr k x] => Some (Arr (promote k KPyInt) (tmap (fun v => n_add O v (c O 1)) x))
    | FNeg, [Arr k x] => Some (Arr k (tmap (n_neg O) x))
    | FAdd, [Arr k x; Arr k' y] => match zipw (n_add O) x y with Some r => Some (Arr (promote k k') r) | None => None end
    | FMul, [Arr k x; Arr k' y] => match zipw (n_mul O) x y with Some r => Some (Arr (promote k k') r) | None => None end
    | FSum, [Arr k x] => Some (Arr (promote k KPyInt) (mkT [] [sum O (tdata x)]))
    | FPair, [Arr k x] => Some (Node tuple_tag [Arr k x; Arr k (tmap (n_neg O) x)])
    | FZero, [] => Some (Arr KFloat (mkT [] [c O 0]))
    | _, _ => None
    end.

  (* ---- vectorised unwrap: eqx.filter_vmap over every axis of _dummy.shape ---- *)
  Definition slice_t (i : nat) (x : tensor A) : option (tensor A) :=
    match tshape x with
    | [] => None
    | _ :: sh => let m := tsize sh in Some (mkT sh (firstn m (skipn (i * m) (tdata x))))
    end.
  (* jax.vmap(f)(x) over the leading axis of size n, as a Python loop: slice, apply, stack *)
  Definition unstack (n : nat) (x : tensor A) : option (list (tensor A)) := mapM (fun i => slice_t i x) (seq 0 n).
  Definition stack_t (n : nat) (xs : list (tensor A)) : tensor A :=
    mkT (n :: tshape (hd (mkT [] []) xs)) (concat (map tdata xs)).
  Definition vmap_t (f : tensor A -> tensor A) (n : nat) (x : tensor A) : option (tensor A) :=
    match unstack n x with Some xs => Some (stack_t n (map f xs)) | None => None end.
  (* in_axes = eqx.if_array(0): arrays are sliced along axis 0, everything else is broadcast *)
  Fixpoint slice_tree (i : nat) (t : vtree) : option vtree :=
    match t with
    | Arr k v => if is_array k then match slice_t i v with Some v' => Some (Arr k v') | None => None end else Some t
    | Node tag l => match mapM (slice_tree i) l with Some l' => Some (Node tag l') | None => None end
    | W k l => match mapM (slice_tree i) l with Some l' => Some (W k l') | None => None end
    | _ => Some t
    end.
  Definition arr_val (t : vtree) : tensor A := match t with Arr _ v => v | _ => mkT [] [] end.
  Definition children (t : vtree) : list vtree := match t with Node _ l | W _ l => l | _ => [] end.
  (* out_axes = eqx.if_array(0): [t] is the first result, [ts] all of them *)
  Fixpoint stack_like (n : nat) (t : vtree) (ts : list vtree) : vtree :=
    match t with
    | Arr k _ => if is_array k then Arr k (stack_t n (map arr_val ts)) else t
    | Node tag l =>
        Node tag ((fix go (j : nat) (l : list vtree) : list vtree :=
                     match l with
                     | [] => []
                     | x :: r => stack_like n x (map (fun u => nth j (children u) Hole) ts) :: go (S j) r
                     end) 0 l)
    | W k l =>
        W k ((fix go (j : nat) (l : list vtree) : list vtree :=
                match l with
                | [] => []
                | x :: r => stack_like n x (map (fun u => nth j (children u) Hole) ts) :: go (S j) r
                end) 0 l)
    | _ => t
    end.
  Fixpoint vmapn (b : list nat) (f : list vtree -> option vtree) (l : list vtree) : option vtree :=
    match b with
    | [] => f l
    | n :: b' =>
        match mapM (fun i => match mapM (slice_tree i) l with Some li => vmapn b' f li | None => None end) (seq 0 n) with
        | Some (r0 :: rs) => Some (stack_like n r0 (r0 :: rs))
        | _ => None
        end
    end.

  (* ---- what each wrapper class's unwrap() returns, given children without wrappers ---- *)
  Definition wapply (k : wlabel) (l : list vtree) : option vtree :=
    match snd k with
    | NonTrainable =>   (* lax.stop_gradient on the arrays of the subtree: the value is unchanged *)
        match l with [x] => Some x | _ => None end
    | Where =>          (* jnp.where(cond, if_true, if_false), vectorised over the axes of _dummy *)
        match l with
        | [_; _; _; Arr _ d] =>
            vmapn (tshape d)
                  (fun l => match l with
                            | [Arr kc cnd; Arr kx x; Arr ky y; _] =>
                                match where3 cnd x y with Some r => Some (Arr (promote kx ky) r) | None => None end
                            | _ => None
                            end) l
        | _ => None
        end
    | WeightNorm =>
        match l with
        | [Arr _ w; Arr _ s] => match weight_norm w s with Some r => Some (Arr KFloat r) | None => None end
        | _ => None
        end
    | BijReparam =>
        match l with
        | [_; _; Arr _ d] =>
            vmapn (tshape d)
                  (fun l => match l with
                            | [Arr _ x; b; _] => match bij_fwd b x with Some r => Some (Arr KFloat r) | None => None end
                            | _ => None
                            end) l
        | _ => None
        end
    | Lambda =>
        match l with
        | [_; _; _; Arr _ d] =>
            vmapn (tshape d)
                  (fun l => match l with
                            | [Static s; Node _ args; Node _ kw; _] =>
                                match fn_of s with Some f => fn_apply f (args ++ kw) | None => None end
                            | _ => None
                            end) l
        | _ => None
        end
    end.

  Definition is_nt (k : wlabel) : bool := match snd k with NonTrainable => true | _ => false end.
  Definition unwrap_num (t : vtree) : option vtree := unwrap _ _ _ _ wapply t.
  Definition unwrap_trace_num (t : vtree) : option (list wlabel) := unwrap_trace _ _ _ _ wapply wlabel (fun k => k) t.
  Definition part_num (t : vtree) : vtree * vtree := part _ _ _ _ is_nt t.
  Definition non_trainable_num (t : vtree) : vtree := non_trainable _ _ _ _ is_nt (0%Z, NonTrainable) t.

  (* ---- utils.get_ravelled_pytree_constructor ---- *)
  Fixpoint ravel (t : vtree) : list A :=
    match t with
    | Arr _ v => tdata v
    | Node _ l | W _ l => flat_map ravel l
    | _ => []
    end.
  Fixpoint unravel (t : vtree) (r : list A) : vtree * list A :=
    match t with
    | Arr k v => let m := length (tdata v) in (Arr k (mkT (tshape v) (firstn m r)), skipn m r)
    | Node tag l =>
        let (l', r') := (fix go (l : list vtree) (r : list A) : list vtree * list A :=
                           match l with
                           | [] => ([], r)
                           | x :: xs => let (x', r1) := unravel x r in let (xs', r2) := go xs r1 in (x' :: xs', r2)
                           end) l r in (Node tag l', r')
    | W k l =>
        let (l', r') := (fix go (l : list vtree) (r : list A) : list vtree * list A :=
                           match l with
                           | [] => ([], r)
                           | x :: xs => let (x', r1) := unravel x r in let (xs', r2) := go xs r1 in (x' :: xs', r2)
                           end) l r in (W k l', r')
    | _ => (t, r)
    end.
  (* len(init) *)
  Definition n_params (t : vtree) : nat := length (ravel (fst (part_num t))).
  (* constructor(ravelled) = combine(unravel(ravelled + init), static) *)
  Definition ctor (t : vtree) (r : list A) : vtree :=
    let ps := part_num t in
    comb _ _ _ _ (fst (unravel (fst ps) (map2 (n_add O) r (ravel (fst ps))))) (snd ps).
  (* the direct specification of the count: inexact array elements not below a NonTrainable *)
  Fixpoint count_trainable (t : vtree) : nat :=
    match t with
    | Arr k v => if inexact k then length (tdata v) else 0
    | Node _ l => fold_right (fun x acc => count_trainable x + acc) 0 l
    | W k l => if is_nt k then 0 else fold_right (fun x acc => count_trainable x + acc) 0 l
    | _ => 0
    end.

  (* one optimiser step that adds [d] to every trainable scalar (used by the tie to drive [fit]) *)
  Fixpoint shift (d : A) (t : vtree) : vtree :=
    match t with
    | Arr k v => Arr k (tmap (fun x => n_add O x d) v)
    | Node tag l => Node tag (map (shift d) l)
    | W k l => W k (map (shift d) l)
    | _ => t
    end.
  Definition fit_shift (ds : list A) (t : vtree) : vtree := fit _ _ _ _ is_nt (map shift ds) t.

  Definition same_meta_t (a b : tensor A) : bool :=
    (length (tshape a) =? length (tshape b)) && forallb (fun p => fst p =? snd p) (combine (tshape a) (tshape b)).
  Definition serialise_num (t : vtree) : list (akind * tensor A) := serialise _ _ _ _ t.
  Definition deserialise_num (like : vtree) (st : list (akind * tensor A)) := deserialise _ _ _ _ same_meta_t like st.
  Definition flatten_num (t : vtree) := (leaves _ _ _ _ t, treedef _ _ _ _ t).
  Definition unflatten_num (d : tdef T wlabel) (ls : list vtree) := unflatten _ _ _ _ d ls.
End Num.
