(* Model of flowjax/bisection_search.py:
     _adapt_interval_to_include_root, _bisection_search, _autoregressive_bisection_search
     (the loop driven by AutoregressiveBisectionInverter.__call__).
   Executable, no proofs, no Reals.  Generic over an ordered field given as the record [FldOps]
   (proved at R in Proofs/BisectP.v, run at exact rationals [QOps] by ocaml/drv_bisect.ml).
   The model follows the code line by line: loop conditions, order of updates, exact-hit handling,
   returned midpoint.  The unbounded [lax.while_loop] of the adaptation becomes recursion on explicit
   fuel, [None] when the fuel runs out (excluded by the theorems); the bisection loop is bounded by
   max_iter in the code itself and recurses on the iterations that remain.
   Not modelled: float rounding / resolution, NaN ([jnp.sign nan = nan] leaves both loops), dtypes. *)
From Coq Require Import List ZArith Bool QArith Qabs Qreduction.
Import ListNotations.

Record FldOps (A : Type) := {
  bo_add : A -> A -> A; bo_sub : A -> A -> A; bo_mul : A -> A -> A; bo_div : A -> A -> A;
  bo_abs : A -> A; bo_leb : A -> A -> bool; bo_ltb : A -> A -> bool; bo_ofZ : Z -> A }.
Arguments bo_add {A}. Arguments bo_sub {A}. Arguments bo_mul {A}. Arguments bo_div {A}.
Arguments bo_abs {A}. Arguments bo_leb {A}. Arguments bo_ltb {A}. Arguments bo_ofZ {A}.

Section Search.
  Context {A : Type} (Op : FldOps A).
  Definition zero : A := bo_ofZ Op 0.
  Definition one : A := bo_ofZ Op 1.
  Definition two : A := bo_ofZ Op 2.

  (* jnp.sign on a finite value, as the integer the code compares it with (== 1, == 0, ==) *)
  Definition sgn (v : A) : Z :=
    if bo_ltb Op zero v then 1%Z else if bo_ltb Op v zero then (-1)%Z else 0%Z.

  (* ---- _adapt_interval_to_include_root: the while_loop over _State ----
     cond_fn:  lower_fn_sign == upper_fn_sign
     body_fn:  sign = lower_fn_sign
               lower_update = where(sign == 1, lower - expand_by, upper)
               upper_update = where(sign == 1, lower, upper + expand_by)
               expand_by *= expand_factor (2.0); signs re-evaluated; iteration + 1 *)
  Fixpoint adapt_loop (f : A -> A) (fuel : nat) (lo up e : A) (sl su : Z) (it : nat)
    : option (A * A * Z * Z * nat) :=
    if Z.eqb sl su then
      match fuel with
      | O => None
      | S k =>
          let lo' := if Z.eqb sl 1 then bo_sub Op lo e else up in
          let up' := if Z.eqb sl 1 then lo else bo_add Op up e in
          adapt_loop f k lo' up' (bo_mul Op e two) (sgn (f lo')) (sgn (f up')) (S it)
      end
    else Some (lo, up, sl, su, it).

  (* init_state: expand_by = upper - lower, signs of func(lower), func(upper); after the loop
       lower = where(upper_fn_sign == 0, upper, lower)
       upper = where(lower_fn_sign == 0, lower, upper)       -- the ALREADY UPDATED lower *)
  Definition adapt (f : A -> A) (lo up : A) (fuel : nat) : option (A * A * nat) :=
    match adapt_loop f fuel lo up (bo_sub Op up lo) (sgn (f lo)) (sgn (f up)) O with
    | None => None
    | Some (l, u, sl, su, it) =>
        let l1 := if Z.eqb su 0 then u else l in
        let u1 := if Z.eqb sl 0 then l1 else u in
        Some (l1, u1, it)
    end.

  (* ---- _bisection_search: the while_loop ----
     cond_fn:  (upper - lower) > 2 * tol  and  iterations < max_iter      ([rem] = max_iter - iterations)
     body_fn:  midpoint = (lower + upper) / 2 ; sign = sign(func(midpoint))
               lower = where(sign == 1, lower, midpoint) ; upper = where(sign == 1, midpoint, upper)
               lower = where(sign == 0, midpoint, lower) ; upper = where(sign == 0, midpoint, upper) *)
  Fixpoint bisect_loop (f : A -> A) (tol : A) (rem : nat) (lo up : A) (it : nat) : A * A * nat :=
    match rem with
    | O => (lo, up, it)
    | S k =>
        if bo_ltb Op (bo_mul Op two tol) (bo_sub Op up lo) then
          let mid := bo_div Op (bo_add Op lo up) two in
          let s := sgn (f mid) in
          let lo1 := if Z.eqb s 1 then lo else mid in
          let up1 := if Z.eqb s 1 then mid else up in
          let lo2 := if Z.eqb s 0 then mid else lo1 in
          let up2 := if Z.eqb s 0 then mid else up1 in
          bisect_loop f tol k lo2 up2 (S it)
        else (lo, up, it)
    end.

  (* returns (root, adapt_iterations, iterations); root = (lower + upper) / 2 *)
  Definition search (f : A -> A) (lo up tol : A) (max_iter fuel : nat) : option (A * nat * nat) :=
    match adapt f lo up fuel with
    | None => None
    | Some (l, u, ai) =>
        let '(l', u', it) := bisect_loop f tol max_iter l u O in
        Some (bo_div Op (bo_add Op l' u') two, ai, it)
    end.

  (* ---- _autoregressive_bisection_search ----
     y.at[i].set(x) for an index inside the vector *)
  Fixpoint upd (l : list A) (i : nat) (x : A) : list A :=
    match l, i with
    | [], _ => []
    | _ :: t, O => x :: t
    | h :: t, S j => h :: upd t j x
    end.

  (* scan_fn: scalar_fn(x) = autoregressive_fn(y.at[i].set(x))[i]; root written back; i + 1 *)
  Fixpoint autoreg_loop (F : list A -> list A) (lo up tol : A) (max_iter fuel : nat)
      (k i : nat) (y : list A) : option (list A) :=
    match k with
    | O => Some y
    | S k' =>
        match search (fun x => nth i (F (upd y i x)) zero) lo up tol max_iter fuel with
        | None => None
        | Some (root, _, _) => autoreg_loop F lo up tol max_iter fuel k' (S i) (upd y i root)
        end
    end.

  (* init = full(length, (upper + lower) / 2), scan of length [n] *)
  Definition autoreg (F : list A -> list A) (lo up tol : A) (n max_iter fuel : nat) : option (list A) :=
    autoreg_loop F lo up tol max_iter fuel n O (repeat (bo_div Op (bo_add Op up lo) two) n).

  (* ---- the function family of the executable side (deep embedding the driver can parse) ---- *)
  Inductive fn : Type :=
  | FPl (b0 y0 s0 : A) (segs : list (A * A * A))  (* piecewise linear: y0 + s0 (x - b0), then from each
                                                     breakpoint b (in order) on: y + s (x - b) *)
  | FCub (a b r : A)                               (* a (x-r)^3 + b (x-r) *)
  | FSat (a e r : A).                              (* a (x-r)/(1+|x-r|) + e (x-r): saturating, linear tails *)

  Definition lin (y s b x : A) : A := bo_add Op y (bo_mul Op s (bo_sub Op x b)).

  Fixpoint pl_eval (cur : A) (segs : list (A * A * A)) (x : A) : A :=
    match segs with
    | [] => cur
    | (b, y, s) :: t => pl_eval (if bo_leb Op b x then lin y s b x else cur) t x
    end.

  Definition eval_fn (g : fn) (x : A) : A :=
    match g with
    | FPl b0 y0 s0 segs => pl_eval (lin y0 s0 b0 x) segs x
    | FCub a b r =>
        let d := bo_sub Op x r in
        bo_add Op (bo_mul Op a (bo_mul Op (bo_mul Op d d) d)) (bo_mul Op b d)
    | FSat a e r =>
        let d := bo_sub Op x r in
        bo_add Op (bo_mul Op a (bo_div Op d (bo_add Op one (bo_abs Op d)))) (bo_mul Op e d)
    end.

  (* a triangular conditional map: row i = (g_i, [c_i0 .. c_i,i-1], cond_i, target_i);
     F(x)_i = ((g_i(x_i) + sum_{j<i} c_ij x_j) + cond_i) - target_i        (bijection.transform(x, condition) - y) *)
  Fixpoint cpl (cs xs : list A) (acc : A) : A :=
    match cs, xs with
    | c :: cs', x :: xs' => cpl cs' xs' (bo_add Op acc (bo_mul Op c x))
    | _, _ => acc
    end.

  Definition tri_row (x : list A) (i : nat) (row : fn * list A * A * A) : A :=
    let '(g, cs, cnd, t) := row in
    bo_sub Op (bo_add Op (bo_add Op (eval_fn g (nth i x zero)) (cpl cs x zero)) cnd) t.

  Fixpoint tri_rows (x : list A) (i : nat) (rows : list (fn * list A * A * A)) : list A :=
    match rows with
    | [] => []
    | row :: t => tri_row x i row :: tri_rows x (S i) t
    end.

  Definition tri_eval (rows : list (fn * list A * A * A)) (x : list A) : list A := tri_rows x O rows.

  Definition search_fn (g : fn) (lo up tol : A) (max_iter fuel : nat) := search (eval_fn g) lo up tol max_iter fuel.
  Definition autoreg_tri (rows : list (fn * list A * A * A)) (lo up tol : A) (max_iter fuel : nat) :=
    autoreg (tri_eval rows) lo up tol (length rows) max_iter fuel.
End Search.

Arguments fn : clear implicits.
Arguments FPl {A}. Arguments FCub {A}. Arguments FSat {A}.

(* exact rationals, every result normalised *)
Definition QOps : FldOps Q := {|
  bo_add := fun a b => Qred (Qplus a b); bo_sub := fun a b => Qred (Qminus a b);
  bo_mul := fun a b => Qred (Qmult a b); bo_div := fun a b => Qred (Qdiv a b);
  bo_abs := Qabs; bo_leb := Qle_bool; bo_ltb := fun a b => negb (Qle_bool b a);
  bo_ofZ := inject_Z |}.
