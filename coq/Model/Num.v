(* The numeric interface every analytic model is generic over.  Executable models never mention
   R: proofs instantiate [ROps] (Proofs/RNum.v), the extracted code is run with OCaml floats
   (ocaml/fops.ml).  All field names carry the prefix n_ (extraction renames fields that clash
   with extracted stdlib names). *)
From Coq Require Import List ZArith Bool.
Import ListNotations.

Record NumOps (A : Type) := {
  n_add : A -> A -> A; n_sub : A -> A -> A; n_mul : A -> A -> A; n_div : A -> A -> A;
  n_neg : A -> A; n_abs : A -> A; n_sign : A -> A;
  n_exp : A -> A; n_log : A -> A; n_tanh : A -> A; n_atanh : A -> A;
  n_softplus : A -> A; n_log1p : A -> A; n_expm1 : A -> A; n_sqrt : A -> A;
  n_lgamma : A -> A; n_pi : A;
  n_leb : A -> A -> bool; n_ltb : A -> A -> bool; n_eqb : A -> A -> bool;
  n_ofZ : Z -> A }.
Arguments n_add {A}. Arguments n_sub {A}. Arguments n_mul {A}. Arguments n_div {A}.
Arguments n_neg {A}. Arguments n_abs {A}. Arguments n_sign {A}.
Arguments n_exp {A}. Arguments n_log {A}. Arguments n_tanh {A}. Arguments n_atanh {A}.
Arguments n_softplus {A}. Arguments n_log1p {A}. Arguments n_expm1 {A}. Arguments n_sqrt {A}.
Arguments n_lgamma {A}. Arguments n_pi {A}.
Arguments n_leb {A}. Arguments n_ltb {A}. Arguments n_eqb {A}. Arguments n_ofZ {A}.

Section Generic.
  Context {A : Type} (O : NumOps A).
  Definition c (z : Z) : A := n_ofZ O z.
  Definition half : A := n_div O (c 1) (c 2).
  Definition where_ (b : bool) (x y : A) : A := if b then x else y.
  (* jnp.clip(x, lo, hi) = minimum(maximum(x, lo), hi) *)
  Definition nmax (a b : A) : A := if n_ltb O a b then b else a.
  Definition nmin (a b : A) : A := if n_ltb O b a then b else a.
  Definition clip (x lo hi : A) : A := nmin (nmax x lo) hi.
  Definition sum (l : list A) : A := fold_left (n_add O) l (c 0).
  Definition dot (a b : list A) : A := sum (map (fun p => n_mul O (fst p) (snd p)) (combine a b)).
  (* NumPy/JAX gather x[i]: a negative index wraps once, out-of-range indices clamp *)
  Definition getz (l : list A) (i : Z) : A :=
    let n := Z.of_nat (length l) in
    let j := if (i <? 0)%Z then (i + n)%Z else i in
    let j := Z.max 0 (Z.min (n - 1) j) in
    nth (Z.to_nat j) l (c 0).
  (* jnp.searchsorted(l, v, side="left"): the number of elements strictly below v (l sorted) *)
  Fixpoint searchsorted (l : list A) (v : A) : Z :=
    match l with [] => 0%Z | x :: t => if n_ltb O x v then (1 + searchsorted t v)%Z else 0%Z end.
End Generic.
