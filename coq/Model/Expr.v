(* A small first-order language for the SCALAR formulas of the leaf bijections (DESIGN 1.2), with
     eval  : the value, generic over NumOps (NumPy gather semantics for parameter arrays);
     vjp   : the reverse-mode derivative, computed with JAX's per-primitive adjoint rules transcribed
             from jax/_src/lax/lax.py (jax 0.11): the adjoint of every node is formed from the VALUES of
             its operands, BOTH branches of a [Where] are differentiated (the unselected one with
             cotangent 0), so that running it in IEEE doubles reproduces jax.grad's inf/NaN pattern;
     safeb : every partial primitive in EVERY branch is applied strictly inside its smooth domain.
   The terms below are the formulas AS CODED NOW in tanh.py, rational_quadratic_spline.py, softplus.py,
   exp.py, affine.py, plus the formulas before the repairs 81a9f7e (LeakyTanh.inverse without y_robust: [_old]),
   2486bd0 (spline bin index not clipped: [_old]) and c2cb03d (out-of-interval inputs replaced by the literal 0: [_zero]).  [eval O env term] is definitionally the
   corresponding function of Model/Leaves.v (Proofs/ExprP.v, by reflexivity).  No proofs, no reals. *)
From Coq Require Import List ZArith Bool.
From FJ Require Import Model.Num.
Import ListNotations.

Inductive expr : Type :=
| Var (n : nat)                       (* scalar: the input and the scalar (static) fields *)
| Par (p : nat) (i : iexpr)           (* entry of a parameter array: pars[p][i], NumPy/JAX gather *)
| Const (z : Z)
| CPi
| Add (a b : expr) | Sub (a b : expr) | Mul (a b : expr) | Div (a b : expr)
| Neg (a : expr) | Abs (a : expr) | Sign (a : expr) | Sq (a : expr)            (* Sq a = a ** 2 *)
| Exp (a : expr) | Log (a : expr) | Tanh (a : expr) | Atanh (a : expr)
| Softplus (a : expr) | Log1p (a : expr) | Expm1 (a : expr) | Sqrt (a : expr)
| Where (c : cond) (a b : expr)       (* jnp.where(c, a, b) *)
| Clip (a lo hi : expr)               (* jnp.clip(a, lo, hi) = minimum(hi, maximum(lo, a)) *)
| Let1 (a body : expr)                (* v = a; body  -- v is the NEXT scalar slot: Var (length vars) *)
with cond : Type :=
| CLe (a b : expr) | CLt (a b : expr) | CAnd (c d : cond)
with iexpr : Type :=
| ILit (z : Z)
| ISearch (p : nat) (e : expr)        (* jnp.searchsorted(pars[p], e)  (side = left) *)
| IAdd (i : iexpr) (z : Z)
| IClipBin (i : iexpr) (p : nat).     (* jnp.clip(i, 0, len(pars[p]) - 2) *)

(* a >= b  is  b <= a *)
Definition CGe (a b : expr) : cond := CLe b a.

Record env (A : Type) := { vars : list A; pars : list (list A) }.
Arguments vars {A}. Arguments pars {A}.

(* what a gradient is taken with respect to: a scalar variable, or entry j of parameter array p *)
Inductive target := TVar (n : nat) | TPar (p : nat) (j : Z).

(* the position a NumPy/JAX gather l[i] reads (negative wraps once, then clamps) -- as Num.getz *)
Definition gidx (n i : Z) : Z :=
  let j := if (i <? 0)%Z then (i + n)%Z else i in Z.max 0 (Z.min (n - 1) j).

(* a let-bound value is appended to the scalars: inside [Let1 a body] evaluated in [en], the bound
   value is [Var (length (vars en))] (de Bruijn LEVELS: outer variables keep their positions) *)
Definition push {A} (en : env A) (v : A) : env A := {| vars := vars en ++ [v]; pars := pars en |}.
Definition par {A} (en : env A) (p : nat) : list A := nth p (pars en) [].

Section Sem.
  Context {A : Type} (O : NumOps A).
  Local Notation "a + b" := (n_add O a b).
  Local Notation "a - b" := (n_sub O a b).
  Local Notation "a * b" := (n_mul O a b).
  Local Notation "a / b" := (n_div O a b).
  Local Notation c := (Num.c O).

  Fixpoint eval (en : env A) (e : expr) : A :=
    match e with
    | Var n => nth n (vars en) (c 0)
    | Par p i => getz O (par en p) (ieval en i)
    | Const z => c z
    | CPi => n_pi O
    | Add a b => eval en a + eval en b
    | Sub a b => eval en a - eval en b
    | Mul a b => eval en a * eval en b
    | Div a b => eval en a / eval en b
    | Neg a => n_neg O (eval en a)
    | Abs a => n_abs O (eval en a)
    | Sign a => n_sign O (eval en a)
    | Sq a => eval en a * eval en a
    | Exp a => n_exp O (eval en a)
    | Log a => n_log O (eval en a)
    | Tanh a => n_tanh O (eval en a)
    | Atanh a => n_atanh O (eval en a)
    | Softplus a => n_softplus O (eval en a)
    | Log1p a => n_log1p O (eval en a)
    | Expm1 a => n_expm1 O (eval en a)
    | Sqrt a => n_sqrt O (eval en a)
    | Where cd a b => where_ (ceval en cd) (eval en a) (eval en b)
    | Clip a lo hi => clip O (eval en a) (eval en lo) (eval en hi)
    | Let1 a body => eval (push en (eval en a)) body
    end
  with ceval (en : env A) (cd : cond) : bool :=
    match cd with
    | CLe a b => n_leb O (eval en a) (eval en b)
    | CLt a b => n_ltb O (eval en a) (eval en b)
    | CAnd x y => ceval en x && ceval en y
    end
  with ieval (en : env A) (i : iexpr) : Z :=
    match i with
    | ILit z => z
    | ISearch p e => searchsorted O (par en p) (eval en e)
    | IAdd j z => (ieval en j + z)%Z
    | IClipBin j p => Z.max 0 (Z.min (Z.of_nat (length (par en p)) - 2) (ieval en j))
    end.

  (* ---- pieces of JAX adjoint rules ---- *)
  Definition zero : A := c 0.
  Definition one : A := c 1.
  (* lax._balanced_cmp(x, y): 1 if x > y, 0.5 if x == y, 0 if x < y or unordered *)
  Definition balanced_cmp (x y : A) : A :=
    if n_ltb O y x then one else if n_eqb O x y then half O else zero.
  (* lax.one_minus_square(x) lowers to (1 + x) * (1 - x) *)
  Definition one_minus_square (x : A) : A := (one + x) * (one - x).
  (* lax/other.py::_replace_inf: +inf -> 0.  "+inf" is recognised by 0 < x and x - x being NaN; at the
     reals (and in option R) the test is always false, so this is the identity there. *)
  Definition isposinf (x : A) : bool := n_ltb O zero x && negb (n_eqb O (x - x) (x - x)).
  Definition replace_inf (x : A) : A := if isposinf x then zero else x.

  (* vjp en e g t: the contribution to the cotangent of target t when cotangent g arrives at e.
     Cotangents that arrive at anything but the target are dropped (their tangent is a symbolic zero
     in JAX: no rule is evaluated for them), contributions are summed. *)
  Fixpoint vjp (en : env A) (e : expr) (g : A) (t : target) : A :=
    match e with
    | Var n => match t with TVar m => if Nat.eqb n m then g else zero | TPar _ _ => zero end
    | Par p i =>
        match t with
        | TPar q j => if Nat.eqb p q && (gidx (Z.of_nat (length (par en p))) (ieval en i) =? j)%Z then g else zero
        | TVar _ => zero
        end
    | Const _ | CPi => zero
    | Add a b => vjp en a g t + vjp en b g t
    | Sub a b => vjp en a g t + vjp en b (n_neg O g) t
    (* mul: (g * y, x * g) *)
    | Mul a b => vjp en a (g * eval en b) t + vjp en b (eval en a * g) t
    (* div: (g / y,  (-g * x) * integer_pow(y, -2)),  integer_pow(y,-2) = 1 / (y * y) *)
    | Div a b =>
        let x := eval en a in let y := eval en b in
        vjp en a (g / y) t + vjp en b ((n_neg O g * x) * (one / (y * y))) t
    | Neg a => vjp en a (n_neg O g) t
    (* abs: select(x >= 0, g, -g) *)
    | Abs a => vjp en a (if n_leb O zero (eval en a) then g else n_neg O g) t
    (* sign: defjvp_zero *)
    | Sign _ => zero
    (* square / integer_pow 2: g * (2 * x) *)
    | Sq a => vjp en a (g * (c 2 * eval en a)) t
    (* exp: g * ans *)
    | Exp a => vjp en a (g * n_exp O (eval en a)) t
    (* log: g / x *)
    | Log a => vjp en a (g / eval en a) t
    (* tanh: g * one_minus_square(ans) *)
    | Tanh a => vjp en a (g * one_minus_square (n_tanh O (eval en a))) t
    (* atanh: g / one_minus_square(x) *)
    | Atanh a => vjp en a (g / one_minus_square (eval en a)) t
    (* jax.nn.softplus(x) = logaddexp(x, 0); custom jvp: t * exp(replace_inf(x) - replace_inf(ans)) *)
    | Softplus a =>
        let x := eval en a in
        vjp en a (g * n_exp O (replace_inf x - replace_inf (n_softplus O x))) t
    (* log1p: g / (x + 1) *)
    | Log1p a => vjp en a (g / (eval en a + one)) t
    (* expm1: g * (ans + 1) *)
    | Expm1 a => vjp en a (g * (n_expm1 O (eval en a) + one)) t
    (* sqrt: g * (0.5 / ans) *)
    | Sqrt a => vjp en a (g * (half O / n_sqrt O (eval en a))) t
    (* select_n: select(c, g, 0) to one case, select(c, 0, g) to the other; BOTH are propagated *)
    | Where cd a b =>
        let s := ceval en cd in
        vjp en a (if s then g else zero) t + vjp en b (if s then zero else g) t
    (* minimum(hi, m) with m = maximum(lo, a); lo, hi are differentiated too *)
    | Clip a lo hi =>
        let va := eval en a in let vlo := eval en lo in let vhi := eval en hi in
        let m := nmax O va vlo in
        let gm := g * balanced_cmp vhi m in         (* min_p, second argument: g * balanced_cmp(x, y) *)
        (vjp en a (gm * balanced_cmp va vlo) t      (* max_p, second argument: g * balanced_cmp(y, x) *)
         + vjp en lo (gm * balanced_cmp vlo va) t)
        + vjp en hi (g * balanced_cmp m vhi) t
    (* a shared value: the cotangents of all its uses are summed, then propagated once *)
    | Let1 a body =>
        let en' := push en (eval en a) in
        vjp en' body g t + vjp en a (vjp en' body g (TVar (length (vars en)))) t
    end.

  (* ---- Safe, boolean form ---- *)
  Fixpoint safeb (en : env A) (e : expr) : bool :=
    match e with
    | Var _ | Const _ | CPi => true
    | Par _ i => isafeb en i
    | Add a b | Sub a b | Mul a b => safeb en a && safeb en b
    | Div a b => safeb en a && safeb en b && negb (n_eqb O (eval en b) zero)
    | Neg a | Abs a | Sign a | Sq a | Exp a | Tanh a | Softplus a | Expm1 a => safeb en a
    | Log a => safeb en a && n_ltb O zero (eval en a)
    | Sqrt a => safeb en a && n_ltb O zero (eval en a)
    | Atanh a => safeb en a && n_ltb O (c (-1)) (eval en a) && n_ltb O (eval en a) one
    | Log1p a => safeb en a && n_ltb O (c (-1)) (eval en a)
    | Where cd a b => csafeb en cd && safeb en a && safeb en b
    | Clip a lo hi => safeb en a && safeb en lo && safeb en hi
    | Let1 a body => safeb en a && safeb (push en (eval en a)) body
    end
  with csafeb (en : env A) (cd : cond) : bool :=
    match cd with
    | CLe a b | CLt a b => safeb en a && safeb en b
    | CAnd x y => csafeb en x && csafeb en y
    end
  with isafeb (en : env A) (i : iexpr) : bool :=
    match i with
    | ILit _ => true
    | ISearch _ e => safeb en e
    | IAdd j _ => isafeb en j
    | IClipBin j _ => isafeb en j
    end.

  (* every constant an expression compares a value against (for boundary-directed inputs) *)
  Fixpoint crit (en : env A) (e : expr) : list A :=
    match e with
    | Var _ | Const _ | CPi => []
    | Par p i => icrit en i
    | Add a b | Sub a b | Mul a b | Div a b => crit en a ++ crit en b
    | Neg a | Abs a | Sign a | Sq a | Exp a | Log a | Tanh a | Atanh a
    | Softplus a | Log1p a | Expm1 a | Sqrt a => crit en a
    | Where cd a b => ccrit en cd ++ crit en a ++ crit en b
    | Clip a lo hi => eval en lo :: eval en hi :: crit en a
    | Let1 a body => crit en a ++ crit (push en (eval en a)) body
    end
  with ccrit (en : env A) (cd : cond) : list A :=
    match cd with
    | CLe a b | CLt a b => eval en a :: eval en b :: crit en a ++ crit en b
    | CAnd x y => ccrit en x ++ ccrit en y
    end
  with icrit (en : env A) (i : iexpr) : list A :=
    match i with
    | ILit _ => []
    | ISearch p e => par en p ++ crit en e
    | IAdd j _ => icrit en j
    | IClipBin j _ => icrit en j
    end.
End Sem.

(* ======================= the formulas as coded ======================= *)
(* scalar fields and the input are passed as expressions, so that formulas compose by substitution
   (inverse_and_log_det: the log-det formula is applied to the term of the inverse). *)

(* ---- tanh.py ----
   A Python function call / local variable SHARES its value: the cotangents of all uses are summed before they
   are propagated further (this matters when the next partial derivative is infinite: (2 - 4) * inf = -inf but
   2 * inf - 4 * inf = NaN).  [d] is the number of scalars in scope = the slot the next Let1 binds. *)
Definition tanh_log_grad_t (d : nat) (x : expr) : expr :=          (* _tanh_log_grad(x) *)
  Let1 x (Mul (Const (-2)) (Sub (Add (Var d) (Softplus (Mul (Const (-2)) (Var d)))) (Log (Const 2)))).
Definition tanh_fwd_t (x : expr) := Tanh x.
Definition tanh_inv_t (y : expr) := Atanh y.
Definition tanh_ld_fwd_t (d : nat) (x : expr) := tanh_log_grad_t d x.
(* x = arctanh(y); -sum(_tanh_log_grad(x)) *)
Definition tanh_ld_inv_of_t (d : nat) (x : expr) := Neg (tanh_log_grad_t d x).
Definition tanh_ld_inv_t (d : nat) (y : expr) := Let1 (Atanh y) (tanh_ld_inv_of_t (S d) (Var d)).

Definition leaky_fwd_t (m g ic x : expr) : expr :=
  Where (CGe (Abs x) m) (Add (Mul g x) (Mul (Sign x) ic)) (Tanh x).
Definition leaky_ld_fwd_t (d : nat) (m g x : expr) : expr :=
  Where (CGe (Abs x) m) (Log g) (tanh_log_grad_t d x).
Definition leaky_inv_t (m g ic y : expr) : expr :=
  let lin := CGe (Abs y) (Tanh m) in
  let x_linear := Div (Sub y (Mul (Sign y) ic)) g in
  let y_robust := Where lin (Const 0) y in
  Where lin x_linear (Atanh y_robust).
(* inverse_and_log_det: x = self.inverse(y) is bound once; the log-det reads y and x *)
Definition leaky_ld_inv_of_t (d : nat) (m g y x : expr) : expr :=
  Neg (Where (CGe (Abs y) (Tanh m)) (Log g) (tanh_log_grad_t d x)).
Definition leaky_ld_inv_t (d : nat) (m g ic y : expr) : expr :=
  Let1 (leaky_inv_t m g ic y) (leaky_ld_inv_of_t (S d) m g y (Var d)).
(* before fix 81a9f7e: arctanh(y) on the unselected branch *)
Definition leaky_inv_old_t (m g ic y : expr) : expr :=
  let lin := CGe (Abs y) (Tanh m) in
  Where lin (Div (Sub y (Mul (Sign y) ic)) g) (Atanh y).
Definition leaky_ld_inv_old_t (d : nat) (m g ic y : expr) : expr :=
  Let1 (leaky_inv_old_t m g ic y) (leaky_ld_inv_of_t (S d) m g y (Var d)).

(* ---- rational_quadratic_spline.py: parameter arrays 0 = x_pos, 1 = y_pos, 2 = derivatives ---- *)
Definition XP := 0%nat. Definition YP := 1%nat. Definition DV := 2%nat.
Definition bin_t (p : nat) (v : expr) : iexpr := IClipBin (IAdd (ISearch p v) (-1)) p.
Definition bin_old_t (p : nat) (v : expr) : iexpr := IAdd (ISearch p v) (-1).   (* before fix 2486bd0 *)

(* the value substituted for out-of-interval inputs ("x_robust"): interval[0] since fix c2cb03d, the literal 0 before *)
Definition rob_lo (lo : expr) : expr := lo.
Definition rob_zero (lo : expr) : expr := Const 0.

Section RQS.
  Variable bin : nat -> expr -> iexpr.
  Variable rob : expr -> expr.
  (* [d] = number of scalars in scope; x_robust / y_robust is bound once (Let1) as [Var d], as in the code *)
  Definition rqs_fwd_gt (d : nat) (lo hi x : expr) : expr :=
    let inb := CAnd (CGe x lo) (CLe x hi) in
    Let1 (Where inb x (rob lo))
     (let xr := Var d in
      let k := bin XP xr in
      let xk := Par XP k in let xk1 := Par XP (IAdd k 1) in
      let yk := Par YP k in let yk1 := Par YP (IAdd k 1) in
      let xi := Div (Sub xr xk) (Sub xk1 xk) in
      let sk := Div (Sub yk1 yk) (Sub xk1 xk) in
      let dk := Par DV k in let dk1 := Par DV (IAdd k 1) in
      let num := Mul (Sub yk1 yk) (Add (Mul sk (Sq xi)) (Mul (Mul dk xi) (Sub (Const 1) xi))) in
      let den := Add sk (Mul (Mul (Sub (Add dk1 dk) (Mul (Const 2) sk)) xi) (Sub (Const 1) xi)) in
      let y := Clip (Add yk (Div num den)) lo hi in
      Where inb y x).
  Definition rqs_inv_gt (d : nat) (lo hi y : expr) : expr :=
    let inb := CAnd (CGe y lo) (CLe y hi) in
    Let1 (Where inb y (rob lo))
     (let yr := Var d in
      let k := bin YP yr in
      let xk := Par XP k in let xk1 := Par XP (IAdd k 1) in
      let yk := Par YP k in let yk1 := Par YP (IAdd k 1) in
      let sk := Div (Sub yk1 yk) (Sub xk1 xk) in
      let dk := Par DV k in let dk1 := Par DV (IAdd k 1) in
      let t := Mul (Sub yr yk) (Sub (Add dk1 dk) (Mul (Const 2) sk)) in
      let a := Add (Mul (Sub yk1 yk) (Sub sk dk)) t in
      let b := Sub (Mul (Sub yk1 yk) dk) t in
      let cc := Mul (Neg sk) (Sub yr yk) in
      let sq := Sqrt (Sub (Sq b) (Mul (Mul (Const 4) a) cc)) in
      let xi := Div (Mul (Const 2) cc) (Sub (Neg b) sq) in
      let x := Clip (Add (Mul xi (Sub xk1 xk)) xk) lo hi in
      Where inb x y).
  Definition rqs_deriv_gt (d : nat) (lo hi x : expr) : expr :=
    let inb := CAnd (CGe x lo) (CLe x hi) in
    Let1 (Where inb x (rob lo))
     (let xr := Var d in
      let k := bin XP xr in
      let xk := Par XP k in let xk1 := Par XP (IAdd k 1) in
      let yk := Par YP k in let yk1 := Par YP (IAdd k 1) in
      let xi := Div (Sub xr xk) (Sub xk1 xk) in
      let sk := Div (Sub yk1 yk) (Sub xk1 xk) in
      let dk := Par DV k in let dk1 := Par DV (IAdd k 1) in
      let num := Mul (Sq sk) (Add (Add (Mul dk1 (Sq xi)) (Mul (Mul (Mul (Const 2) sk) xi) (Sub (Const 1) xi)))
                                   (Mul dk (Sq (Sub (Const 1) xi)))) in
      let den0 := Add sk (Mul (Mul (Sub (Add dk1 dk) (Mul (Const 2) sk)) xi) (Sub (Const 1) xi)) in
      Where inb (Div num (Sq den0)) (Const 1)).
  (* transform_and_log_det: log(derivative(x));  inverse_and_log_det: x = inverse(y) (bound once), -log(derivative(x)) *)
  Definition rqs_ld_fwd_gt (d : nat) (lo hi x : expr) := Log (rqs_deriv_gt d lo hi x).
  Definition rqs_ld_inv_of_gt (d : nat) (lo hi x : expr) := Neg (Log (rqs_deriv_gt d lo hi x)).
  Definition rqs_ld_inv_gt (d : nat) (lo hi y : expr) :=
    Let1 (rqs_inv_gt d lo hi y) (rqs_ld_inv_of_gt (S d) lo hi (Var d)).
End RQS.
Definition rqs_fwd_t := rqs_fwd_gt bin_t rob_lo.
Definition rqs_inv_t := rqs_inv_gt bin_t rob_lo.
Definition rqs_deriv_t := rqs_deriv_gt bin_t rob_lo.
Definition rqs_ld_fwd_t := rqs_ld_fwd_gt bin_t rob_lo.
Definition rqs_ld_inv_of_t := rqs_ld_inv_of_gt bin_t rob_lo.
Definition rqs_ld_inv_t := rqs_ld_inv_gt bin_t rob_lo.
(* before fix 2486bd0 (D1): bin index not clipped *)
Definition rqs_fwd_old_t := rqs_fwd_gt bin_old_t rob_lo.
Definition rqs_inv_old_t := rqs_inv_gt bin_old_t rob_lo.
Definition rqs_deriv_old_t := rqs_deriv_gt bin_old_t rob_lo.
Definition rqs_ld_fwd_old_t := rqs_ld_fwd_gt bin_old_t rob_lo.
Definition rqs_ld_inv_of_old_t := rqs_ld_inv_of_gt bin_old_t rob_lo.
Definition rqs_ld_inv_old_t := rqs_ld_inv_gt bin_old_t rob_lo.
(* before fix c2cb03d (D9): out-of-interval inputs replaced by the literal 0 *)
Definition rqs_fwd_zero_t := rqs_fwd_gt bin_t rob_zero.
Definition rqs_inv_zero_t := rqs_inv_gt bin_t rob_zero.
Definition rqs_deriv_zero_t := rqs_deriv_gt bin_t rob_zero.
Definition rqs_ld_fwd_zero_t := rqs_ld_fwd_gt bin_t rob_zero.
Definition rqs_ld_inv_of_zero_t := rqs_ld_inv_of_gt bin_t rob_zero.
Definition rqs_ld_inv_zero_t := rqs_ld_inv_gt bin_t rob_zero.

(* ---- softplus.py, exp.py, affine.py ---- *)
Definition softplus_fwd_t (x : expr) := Softplus x.
Definition softplus_ld_fwd_t (x : expr) := Neg (Softplus (Neg x)).
Definition softplus_inv_t (y : expr) := Add (Log (Neg (Expm1 (Neg y)))) y.
Definition softplus_ld_inv_t (d : nat) (y : expr) := Let1 (softplus_inv_t y) (Softplus (Neg (Var d))).   (* x = inverse(y); softplus(-x) *)
Definition exp_fwd_t (x : expr) := Exp x.
Definition exp_inv_t (y : expr) := Log y.
Definition exp_ld_fwd_t (x : expr) := x.
Definition exp_ld_inv_t (d : nat) (y : expr) := Let1 (Log y) (Neg (Var d)).                               (* x = log(y); -x *)
Definition affine_fwd_t (loc scale x : expr) := Add (Mul x scale) loc.
Definition affine_inv_t (loc scale y : expr) := Div (Sub y loc) scale.
Definition affine_ld_t (scale : expr) := Log (Abs scale).

(* ---- distributions.py: StandardNormal._log_prob = jax.scipy.stats.norm.logpdf(x) (loc 0, scale 1):
        (log(2 pi * square(1)) + square(x - 0) / square(1)) / -2 ---- *)
Definition norm_logpdf_t (z : expr) : expr :=
  Div (Add (Log (Mul (Mul (Const 2) CPi) (Sq (Const 1)))) (Div (Sq (Sub z (Const 0))) (Sq (Const 1)))) (Const (-2)).

(* ======================= log_prob of Transformed(base, leaf) ======================= *)
(* variable layout of the environment used by the tie *)
Definition vX := Var 0.    (* the input *)
Definition vM := Var 1. Definition vG := Var 2. Definition vIC := Var 3.     (* LeakyTanh fields *)
Definition vLO := Var 4. Definition vHI := Var 5.                            (* spline interval *)
Definition vLOC := Var 6. Definition vSCALE := Var 7.                        (* Affine leaf *)
Definition vBLOC := Var 8. Definition vBSCALE := Var 9.                      (* Normal(loc, scale) base *)
Definition nV := 10%nat.   (* number of scalars of that layout = first free let level *)

Inductive leafk := LAffine | LExp | LSoftplus | LTanh | LLeaky | LRqs | LLeakyOld | LRqsOld | LRqsZero.

(* the four methods of a leaf as terms in the input *)
Definition fwd_t (l : leafk) (x : expr) : expr :=
  match l with
  | LAffine => affine_fwd_t vLOC vSCALE x | LExp => exp_fwd_t x | LSoftplus => softplus_fwd_t x
  | LTanh => tanh_fwd_t x | LLeaky | LLeakyOld => leaky_fwd_t vM vG vIC x
  | LRqs => rqs_fwd_t nV vLO vHI x | LRqsOld => rqs_fwd_old_t nV vLO vHI x | LRqsZero => rqs_fwd_zero_t nV vLO vHI x
  end.
Definition inv_t (l : leafk) (y : expr) : expr :=
  match l with
  | LAffine => affine_inv_t vLOC vSCALE y | LExp => exp_inv_t y | LSoftplus => softplus_inv_t y
  | LTanh => tanh_inv_t y | LLeaky => leaky_inv_t vM vG vIC y | LLeakyOld => leaky_inv_old_t vM vG vIC y
  | LRqs => rqs_inv_t nV vLO vHI y | LRqsOld => rqs_inv_old_t nV vLO vHI y | LRqsZero => rqs_inv_zero_t nV vLO vHI y
  end.
Definition ld_fwd_t (l : leafk) (x : expr) : expr :=
  match l with
  | LAffine => affine_ld_t vSCALE | LExp => exp_ld_fwd_t x | LSoftplus => softplus_ld_fwd_t x
  | LTanh => tanh_ld_fwd_t nV x | LLeaky | LLeakyOld => leaky_ld_fwd_t nV vM vG x
  | LRqs => rqs_ld_fwd_t nV vLO vHI x | LRqsOld => rqs_ld_fwd_old_t nV vLO vHI x | LRqsZero => rqs_ld_fwd_zero_t nV vLO vHI x
  end.
(* the log-det of inverse_and_log_det as a function of the input y AND the already computed x = inverse(y) *)
Definition ld_inv_of_t (l : leafk) (d : nat) (y x : expr) : expr :=
  match l with
  | LAffine => Neg (affine_ld_t vSCALE) | LExp => Neg x | LSoftplus => Softplus (Neg x)
  | LTanh => tanh_ld_inv_of_t d x | LLeaky | LLeakyOld => leaky_ld_inv_of_t d vM vG y x
  | LRqs => rqs_ld_inv_of_t d vLO vHI x | LRqsOld => rqs_ld_inv_of_old_t d vLO vHI x | LRqsZero => rqs_ld_inv_of_zero_t d vLO vHI x
  end.
Definition ld_inv_t (l : leafk) (y : expr) : expr := Let1 (inv_t l y) (ld_inv_of_t l (S nV) y (Var nV)).

(* base_dist._log_prob(z): StandardNormal, or Normal(loc, scale) = Transformed(StandardNormal, Affine) *)
Definition base_lp_t (normal : bool) (z : expr) : expr :=
  if normal then Add (norm_logpdf_t (affine_inv_t vBLOC vBSCALE z)) (Neg (affine_ld_t vBSCALE))
  else norm_logpdf_t z.

(* AbstractTransformed._log_prob:  z, ld = bijection.inverse_and_log_det(x);  base._log_prob(z) + ld
   (z is bound once: it feeds the base density and, inside inverse_and_log_det, the log-det).
   [inverted]: the bijection is Invert(leaf), whose inverse_and_log_det is leaf.transform_and_log_det
   (there the point and the log-det are computed independently from x). *)
Definition lp_t (l : leafk) (inverted normal : bool) : expr :=
  if inverted then Add (base_lp_t normal (fwd_t l vX)) (ld_fwd_t l vX)
  else Let1 (inv_t l vX) (Add (base_lp_t normal (Var nV)) (ld_inv_of_t l (S nV) vX (Var nV))).

(* the where(isnan(lps), -inf, lps) post-processing of AbstractDistribution.log_prob on value classes *)
Inductive vclass := Fin | PInf | NInf | NaN.
Definition cadd (a b : vclass) : list vclass :=   (* possible classes of a + b (finite sums may overflow) *)
  match a, b with
  | NaN, _ | _, NaN => [NaN]
  | PInf, NInf | NInf, PInf => [NaN]
  | PInf, _ | _, PInf => [PInf]
  | NInf, _ | _, NInf => [NInf]
  | Fin, Fin => [Fin; PInf; NInf]
  end.
Definition post (v : vclass) : vclass := match v with NaN => NInf | _ => v end.
Definition log_prob_classes (p_z ld : vclass) : list vclass := map post (cadd p_z ld).

(* single primitives, for the self-test of the adjoint rules against jax.vjp *)
Definition prim_t (k : nat) : expr :=
  let a := Var 0 in let b := Var 1 in let d := Var 2 in
  match k with
  | 0 => Add a b | 1 => Sub a b | 2 => Mul a b | 3 => Div a b | 4 => Neg a | 5 => Abs a | 6 => Sign a
  | 7 => Sq a | 8 => Exp a | 9 => Log a | 10 => Tanh a | 11 => Atanh a | 12 => Softplus a | 13 => Log1p a
  | 14 => Expm1 a | 15 => Sqrt a | 16 => Where (CLe a b) a d | 17 => Where (CLt a b) d a
  | 18 => Clip a b d | 19 => Where (CAnd (CGe a b) (CLe a d)) a (Const 0)
  | _ => Const 0
  end%nat.

(* ======================= compositions: Transformed(base, Chain[...] | Invert(Chain[...])) ======================= *)
(* Every layer of a chain has its own parameters: layer j reads its 7 scalars (m, g, ic, lo, hi, loc, scale) at an offset
   in the scalars and its 3 arrays (x_pos, y_pos, derivatives) at an offset in the arrays.  The leaf terms above read arrays
   0, 1, 2: [shift_par k] moves a term to the arrays k, k+1, k+2. *)
Fixpoint shift_par (k : nat) (e : expr) : expr :=
  match e with
  | Var n => Var n
  | Par p i => Par (k + p) (shift_ipar k i)
  | Const z => Const z
  | CPi => CPi
  | Add a b => Add (shift_par k a) (shift_par k b)
  | Sub a b => Sub (shift_par k a) (shift_par k b)
  | Mul a b => Mul (shift_par k a) (shift_par k b)
  | Div a b => Div (shift_par k a) (shift_par k b)
  | Neg a => Neg (shift_par k a) | Abs a => Abs (shift_par k a) | Sign a => Sign (shift_par k a) | Sq a => Sq (shift_par k a)
  | Exp a => Exp (shift_par k a) | Log a => Log (shift_par k a) | Tanh a => Tanh (shift_par k a) | Atanh a => Atanh (shift_par k a)
  | Softplus a => Softplus (shift_par k a) | Log1p a => Log1p (shift_par k a) | Expm1 a => Expm1 (shift_par k a)
  | Sqrt a => Sqrt (shift_par k a)
  | Where c a b => Where (shift_cpar k c) (shift_par k a) (shift_par k b)
  | Clip a lo hi => Clip (shift_par k a) (shift_par k lo) (shift_par k hi)
  | Let1 a b => Let1 (shift_par k a) (shift_par k b)
  end
with shift_cpar (k : nat) (c : cond) : cond :=
  match c with
  | CLe a b => CLe (shift_par k a) (shift_par k b)
  | CLt a b => CLt (shift_par k a) (shift_par k b)
  | CAnd x y => CAnd (shift_cpar k x) (shift_cpar k y)
  end
with shift_ipar (k : nat) (i : iexpr) : iexpr :=
  match i with
  | ILit z => ILit z
  | ISearch p e => ISearch (k + p) (shift_par k e)
  | IAdd j z => IAdd (shift_ipar k j) z
  | IClipBin j p => IClipBin (shift_ipar k j) (k + p)
  end.

(* the methods of a leaf whose scalars start at slot [vo]; [d] = number of scalars in scope (next let slot) *)
Definition sv (vo i : nat) : expr := Var (vo + i).
Definition fwd_at (l : leafk) (vo d : nat) (x : expr) : expr :=
  match l with
  | LAffine => affine_fwd_t (sv vo 5) (sv vo 6) x | LExp => exp_fwd_t x | LSoftplus => softplus_fwd_t x
  | LTanh => tanh_fwd_t x | LLeaky | LLeakyOld => leaky_fwd_t (sv vo 0) (sv vo 1) (sv vo 2) x
  | LRqs => rqs_fwd_t d (sv vo 3) (sv vo 4) x | LRqsOld => rqs_fwd_old_t d (sv vo 3) (sv vo 4) x
  | LRqsZero => rqs_fwd_zero_t d (sv vo 3) (sv vo 4) x
  end.
Definition inv_at (l : leafk) (vo d : nat) (y : expr) : expr :=
  match l with
  | LAffine => affine_inv_t (sv vo 5) (sv vo 6) y | LExp => exp_inv_t y | LSoftplus => softplus_inv_t y
  | LTanh => tanh_inv_t y | LLeaky => leaky_inv_t (sv vo 0) (sv vo 1) (sv vo 2) y
  | LLeakyOld => leaky_inv_old_t (sv vo 0) (sv vo 1) (sv vo 2) y
  | LRqs => rqs_inv_t d (sv vo 3) (sv vo 4) y | LRqsOld => rqs_inv_old_t d (sv vo 3) (sv vo 4) y
  | LRqsZero => rqs_inv_zero_t d (sv vo 3) (sv vo 4) y
  end.
Definition ld_fwd_at (l : leafk) (vo d : nat) (x : expr) : expr :=
  match l with
  | LAffine => affine_ld_t (sv vo 6) | LExp => exp_ld_fwd_t x | LSoftplus => softplus_ld_fwd_t x
  | LTanh => tanh_ld_fwd_t d x | LLeaky | LLeakyOld => leaky_ld_fwd_t d (sv vo 0) (sv vo 1) x
  | LRqs => rqs_ld_fwd_t d (sv vo 3) (sv vo 4) x | LRqsOld => rqs_ld_fwd_old_t d (sv vo 3) (sv vo 4) x
  | LRqsZero => rqs_ld_fwd_zero_t d (sv vo 3) (sv vo 4) x
  end.
Definition ld_inv_of_at (l : leafk) (vo d : nat) (y x : expr) : expr :=
  match l with
  | LAffine => Neg (affine_ld_t (sv vo 6)) | LExp => Neg x | LSoftplus => Softplus (Neg x)
  | LTanh => tanh_ld_inv_of_t d x | LLeaky | LLeakyOld => leaky_ld_inv_of_t d (sv vo 0) (sv vo 1) y x
  | LRqs => rqs_ld_inv_of_t d (sv vo 3) (sv vo 4) x | LRqsOld => rqs_ld_inv_of_old_t d (sv vo 3) (sv vo 4) x
  | LRqsZero => rqs_ld_inv_of_zero_t d (sv vo 3) (sv vo 4) x
  end.

(* one step of Chain.inverse_and_log_det / transform_and_log_det: the leaf's transform (s_fwd) or inverse, with its log-det *)
Record step := { s_kind : leafk; s_fwd : bool; s_vo : nat; s_po : nat }.
Definition step_pt (s : step) (d : nat) (cur : expr) : expr :=
  shift_par (s_po s) (if s_fwd s then fwd_at (s_kind s) (s_vo s) d cur else inv_at (s_kind s) (s_vo s) d cur).
(* the log-det, given the running value [cur] and the already bound new point [x] *)
Definition step_ld (s : step) (d : nat) (cur x : expr) : expr :=
  shift_par (s_po s) (if s_fwd s then ld_fwd_at (s_kind s) (s_vo s) d cur else ld_inv_of_at (s_kind s) (s_vo s) d cur x).

(* chain.py:  log_abs_det_jac = 0;  for b in ...:  y, ld = b.<method>(y);  log_abs_det_jac += ld.sum()
   -- each new point (slot d) and each log-det (slot d+1) is bound once, where it is computed (let slots are absolute:
   a term with inner lets is only meaningful at the depth it was built for); finally  fin(point) + log_abs_det_jac *)
Fixpoint chain_t (steps : list step) (cur acc : expr) (d : nat) (fin : expr -> expr) : expr :=
  match steps with
  | [] => Add (fin cur) acc
  | s :: r => Let1 (step_pt s d cur)
               (Let1 (step_ld s (S d) cur (Var d))
                  (chain_t r (Var d) (Add acc (Var (S d))) (S (S d)) fin))
  end.
Definition base_lp_at (normal : bool) (bl bs z : expr) : expr :=
  if normal then Add (norm_logpdf_t (affine_inv_t bl bs z)) (Neg (affine_ld_t bs)) else norm_logpdf_t z.

(* layout of a chain's environment: Var 0 = x, Var 1, 2 = loc, scale of a Normal base, layer j (0-based) has its scalars
   at 3 + 7 j and its arrays at 3 j.  A layer is (kind, wrapped in Invert). *)
Definition layer := (leafk * bool)%type.
Definition chain_steps (outer_inverted : bool) (ls : list layer) : list step :=
  let mk := fun (p : nat * layer) =>
    {| s_kind := fst (snd p); s_fwd := xorb outer_inverted (snd (snd p)); s_vo := 3 + 7 * fst p; s_po := 3 * fst p |} in
  let steps := map mk (combine (seq 0 (length ls)) ls) in
  (* Transformed(base, Chain ls): inverse_and_log_det runs right to left; Invert(Chain ls): transform_and_log_det left to right *)
  if outer_inverted then steps else rev steps.
Definition chain_nvars (ls : list layer) : nat := 3 + 7 * length ls.
Definition lp_chain (normal outer_inverted : bool) (ls : list layer) : expr :=
  chain_t (chain_steps outer_inverted ls) (Var 0) (Const 0) (chain_nvars ls) (base_lp_at normal (Var 1) (Var 2)).

(* the smallest relative distance between the two sides of any comparison the evaluation makes (branch conditions, searched
   value vs knots, clip ties, abs at 0): a tiny margin means that one-ulp differences upstream (libm vs XLA) may select
   another branch.  Used by the tie only to classify, never to excuse an inf/NaN difference. *)
Section Margin.
  Context {A : Type} (O : NumOps A).
  Definition rel (a b : A) : A := n_div O (n_abs O (n_sub O a b)) (n_add O (one O) (n_abs O b)).
  Fixpoint margin (en : env A) (e : expr) : A :=
    match e with
    | Var _ | Const _ | CPi => one O
    | Par _ i => imargin en i
    | Add a b | Sub a b | Mul a b | Div a b => nmin O (margin en a) (margin en b)
    | Abs a => nmin O (rel (eval O en a) (zero O)) (margin en a)
    | Neg a | Sign a | Sq a | Exp a | Log a | Tanh a | Atanh a | Softplus a | Log1p a | Expm1 a | Sqrt a => margin en a
    | Where c a b => nmin O (cmargin en c) (nmin O (margin en a) (margin en b))
    | Clip a lo hi => nmin O (nmin O (rel (eval O en a) (eval O en lo)) (rel (eval O en a) (eval O en hi))) (margin en a)
    | Let1 a b => nmin O (margin en a) (margin (push en (eval O en a)) b)
    end
  with cmargin (en : env A) (c : cond) : A :=
    match c with
    | CLe a b | CLt a b => nmin O (rel (eval O en a) (eval O en b)) (nmin O (margin en a) (margin en b))
    | CAnd x y => nmin O (cmargin en x) (cmargin en y)
    end
  with imargin (en : env A) (i : iexpr) : A :=
    match i with
    | ILit _ => one O
    | ISearch p e => fold_left (fun m k => nmin O m (rel (eval O en e) k)) (par en p) (margin en e)
    | IAdd j _ => imargin en j
    | IClipBin j _ => imargin en j
    end.
End Margin.
