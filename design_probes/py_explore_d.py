from common import *
import optax
from flowjax.train import fit_to_data, fit_to_variational_target
from flowjax.train.losses import *
from flowjax.train.losses import _get_contrastive_idxs
key = jr.PRNGKey(0)
# ---- C12: freeze subsets, train, compare bitwise
def leaves_with_paths(t):
    return jax.tree_util.tree_flatten_with_path(t, is_leaf=lambda l: isinstance(l, wrappers.NonTrainable))[0]
flow = masked_autoregressive_flow(key, base_dist=Normal(jnp.zeros(2)), flow_layers=2, nn_width=4)
# freeze base dist + first MLP layer bias
flow_f = eqx.tree_at(lambda f: f.base_dist, flow, replace_fn=non_trainable)
flow_f = eqx.tree_at(lambda f: f.bijection.bijection.bijection.bijections[0].masked_autoregressive_mlp.layers[0].bias, flow_f, replace_fn=NonTrainable)
x = jr.normal(key, (50, 2))
for opt in [None, optax.sgd(0.1), optax.adamw(1e-2)]:
    out, _ = fit_to_data(key, flow_f, x, max_epochs=3, batch_size=10, optimizer=opt, show_progress=False)
    a = leaves_with_paths(flow_f); b = leaves_with_paths(out)
    moved = sum(1 for (p, l), (_, m) in zip(a, b) if not isinstance(l, wrappers.NonTrainable) and eqx.is_inexact_array(l) and not np.array_equal(np.asarray(l), np.asarray(m)))
    frozen_same = all(all(np.array_equal(np.asarray(u), np.asarray(v)) for u, v in zip(jax.tree_util.tree_leaves(l), jax.tree_util.tree_leaves(m))) for (p, l), (_, m) in zip(a, b) if isinstance(l, wrappers.NonTrainable))
    ints_same = all(np.array_equal(np.asarray(l), np.asarray(m)) for (p, l), (_, m) in zip(a, b) if eqx.is_array(l) and not eqx.is_inexact_array(l))
    print("fit_to_data", type(opt).__name__, "moved", moved, "frozen_same", frozen_same, "ints_same", ints_same)
vflow = eqx.tree_at(lambda f: f.base_dist, masked_autoregressive_flow(key, base_dist=Normal(jnp.zeros(2)), flow_layers=2, nn_width=4, invert=False), replace_fn=non_trainable)
out, ls = fit_to_variational_target(key, vflow, ElboLoss(lambda x: -0.5*jnp.sum((x-1)**2), 20), steps=5, show_progress=False)
a = leaves_with_paths(vflow); b = leaves_with_paths(out)
print("variational frozen same", all(all(np.array_equal(np.asarray(u), np.asarray(v)) for u, v in zip(jax.tree_util.tree_leaves(l), jax.tree_util.tree_leaves(m))) for (p, l), (_, m) in zip(a, b) if isinstance(l, wrappers.NonTrainable)))
g = eqx.filter_grad(lambda d: d.log_prob(jnp.ones(2)))(flow_f)
print("grad frozen zero:", [float(jnp.abs(l).max()) for l in jax.tree_util.tree_leaves(g.base_dist)], float(jnp.abs(g.bijection.bijection.bijection.bijections[0].masked_autoregressive_mlp.layers[0].bias.tree).max()))
# unwrap idempotent, method invariance
u = unwrap(flow_f); uu = unwrap(u)
print("unwrap idempotent:", all(np.array_equal(np.asarray(p), np.asarray(q)) for p, q in zip(jax.tree_util.tree_leaves(u), jax.tree_util.tree_leaves(uu))), "lp same:", float(flow_f.log_prob(jnp.ones(2)) - u.log_prob(jnp.ones(2))))
# ---- C17
cflow = coupling_flow(key, base_dist=Normal(jnp.zeros(2)), cond_dim=3, flow_layers=2, nn_width=4)
params, static = eqx.partition(cflow, eqx.is_inexact_array, is_leaf=lambda l: isinstance(l, wrappers.NonTrainable))
xx = jr.normal(key, (6,2)); cc = jr.normal(jr.PRNGKey(1), (6,3))
ml = MaximumLikelihoodLoss()(params, static, xx, cc)
print("ML", float(ml + cflow.log_prob(xx, cc).mean()))
for n in range(1,6):
    idx = np.asarray(_get_contrastive_idxs(jr.PRNGKey(n), 6, n))
    ok = all(len(set(r)) == n and i not in r and all(0 <= v < 6 for v in r) for i, r in enumerate(idx))
    cl = ContrastiveLoss(Normal(jnp.zeros(2)), n)(params, static, xx, cc, jr.PRNGKey(n))
    lq = np.asarray(jax.vmap(lambda c: cflow.log_prob(xx, c))(cc)) - np.asarray(Normal(jnp.zeros(2)).log_prob(xx))[None, :]  # [i, j] logit of x_j under cond i
    ref = np.mean([-(lq[i,i] - np.log(np.exp(lq[i, idx[i]]).sum() + np.exp(lq[i,i]))) for i in range(6)])
    print("contrastive n", n, ok, float(cl), float(cl) - ref)
vf = masked_autoregressive_flow(key, base_dist=Normal(jnp.zeros(2)), flow_layers=2, nn_width=4, invert=False)
p2, s2 = eqx.partition(vf, eqx.is_inexact_array)
tgt = lambda x: -0.5*jnp.sum((x-1)**2)
e1 = ElboLoss(tgt, 7)(p2, s2, jr.PRNGKey(4)); e2 = ElboLoss(tgt, 7, stick_the_landing=True)(p2, s2, jr.PRNGKey(4))
smp, lp = vf.sample_and_log_prob(jr.PRNGKey(4), (7,))
print("elbo", float(e1), float(e2), float((lp - jax.vmap(tgt)(smp)).mean()))
