From Coq Require Import Reals List Lra Sorted.
Import ListNotations.
Open Scope R_scope.

Fixpoint rsum (l : list R) : R := match l with [] => 0 | x :: t => x + rsum t end.
(* jnp.cumsum with running offset b *)
Fixpoint cumsum_from (b : R) (l : list R) : list R :=
  match l with [] => [] | x :: t => (b + x) :: cumsum_from (b + x) t end.

Lemma cumsum_gt b l : Forall (fun x => 0 < x) l -> Forall (fun y => b < y) (cumsum_from b l).
Proof.
  revert b. induction l as [|x t IH]; intros b H; cbn; constructor.
  - inversion H; subst. lra.
  - inversion H; subst. specialize (IH (b + x) H3).
    eapply Forall_impl; [|exact IH]. cbn. intros y Hy. lra.
Qed.
Lemma cumsum_sorted b l : Forall (fun x => 0 < x) l -> StronglySorted Rlt (cumsum_from b l).
Proof.
  revert b. induction l as [|x t IH]; intros b H; cbn; constructor.
  - apply IH. now inversion H.
  - apply cumsum_gt. now inversion H.
Qed.
Lemma cumsum_le_total b l : Forall (fun x => 0 < x) l -> Forall (fun y => y <= b + rsum l) (cumsum_from b l).
Proof.
  revert b. induction l as [|x t IH]; intros b H; cbn; constructor.
  - inversion H; subst. assert (0 <= rsum t).
    { clear -H3. induction H3; cbn; lra. } lra.
  - inversion H; subst. specialize (IH (b + x) H3).
    eapply Forall_impl; [|exact IH]. cbn. intros y Hy. lra.
Qed.

(* softmax with the code's adjustment; first width halved *)
Definition softmax (a : list R) : list R := let z := rsum (map exp a) in map (fun x => exp x / z) a.
Definition adjust (adj : R) (ws : list R) : list R :=
  map (fun w => (w + adj / INR (length ws)) / (1 + adj)) ws.
Definition halve_first (ws : list R) : list R := match ws with [] => [] | w :: t => w / 2 :: t end.
Definition knots (lo hi adj : R) (raw : list R) : list R :=
  let ws := halve_first (adjust adj (softmax raw)) in
  lo :: map (fun c => lo + (hi - lo) * c) (cumsum_from 0 ws) ++ [hi].

Lemma rsum_exp_pos a : a <> [] -> 0 < rsum (map exp a).
Proof. destruct a as [|x t]; [congruence|]. intros _. cbn. pose proof (exp_pos x).
  assert (0 <= rsum (map exp t)). { induction t; cbn; [lra|]. pose proof (exp_pos a). lra. } lra. Qed.
Lemma softmax_pos a : a <> [] -> Forall (fun w => 0 < w) (softmax a).
Proof. intros H. unfold softmax. apply Forall_forall. intros w Hw. apply in_map_iff in Hw as (x & <- & _).
  apply Rdiv_lt_0_compat; [apply exp_pos | apply rsum_exp_pos, H]. Qed.
Lemma rsum_map_div (f : R -> R) z l : rsum (map (fun x => f x / z) l) = rsum (map f l) / z.
Proof. induction l; cbn; [unfold Rdiv; ring|]. rewrite IHl. unfold Rdiv; ring. Qed.
Lemma softmax_sum a : a <> [] -> rsum (softmax a) = 1.
Proof. intros H. unfold softmax. rewrite (rsum_map_div exp). pose proof (rsum_exp_pos a H). field. lra. Qed.

Lemma adjust_pos adj ws : 0 <= adj -> ws <> [] -> Forall (fun w => 0 < w) ws -> Forall (fun w => 0 < w) (adjust adj ws).
Proof.
  intros Ha Hne H. unfold adjust. apply Forall_forall. intros w Hw. apply in_map_iff in Hw as (x & <- & Hx).
  rewrite Forall_forall in H. specialize (H x Hx).
  assert (0 < INR (length ws)). { apply lt_0_INR. destruct ws; [congruence|cbn; apply Nat.lt_0_succ]. }
  apply Rdiv_lt_0_compat; [|lra]. assert (0 <= adj / INR (length ws)) by (apply Rmult_le_pos; [lra| left; now apply Rinv_0_lt_compat]). lra.
Qed.
Lemma rsum_adjust adj ws : 0 <= adj -> ws <> [] -> rsum (adjust adj ws) = (rsum ws + adj) / (1 + adj).
Proof.
  intros Ha Hne. unfold adjust. set (n := INR (length ws)).
  assert (Hn : 0 < n). { apply lt_0_INR. destruct ws; [congruence|cbn; apply Nat.lt_0_succ]. }
  assert (H : forall l, rsum (map (fun w => (w + adj / n) / (1 + adj)) l) = (rsum l + INR (length l) * (adj / n)) / (1 + adj)).
  { induction l as [|x t IH]; [cbn; unfold Rdiv; ring|]. cbn [map rsum length]. rewrite IH, S_INR. field. lra. }
  rewrite H. fold n. field. split; lra.
Qed.

Theorem knots_strictly_increasing lo hi adj raw :
  lo < hi -> 0 <= adj -> raw <> [] -> StronglySorted Rlt (knots lo hi adj raw).
Proof.
  intros Hlh Ha Hne. unfold knots.
  set (ws0 := adjust adj (softmax raw)).
  assert (Hne0 : softmax raw <> []) by (unfold softmax; destruct raw; [congruence|discriminate]).
  assert (Hpos0 : Forall (fun w => 0 < w) ws0) by (apply adjust_pos; [exact Ha|exact Hne0|apply softmax_pos, Hne]).
  assert (Hsum0 : rsum ws0 = 1).
  { unfold ws0. rewrite rsum_adjust, softmax_sum by assumption. field. lra. }
  destruct ws0 as [|w0 t] eqn:E. { unfold ws0, adjust in E. destruct (softmax raw); [congruence|discriminate]. }
  cbn [halve_first]. inversion Hpos0 as [|? ? Hw0 Ht]; subst.
  assert (Hpos : Forall (fun w => 0 < w) (w0 / 2 :: t)) by (constructor; [lra|exact Ht]).
  assert (Hsum : rsum (w0 / 2 :: t) = 1 - w0 / 2) by (cbn in *; lra).
  pose proof (cumsum_sorted 0 _ Hpos) as Hs. pose proof (cumsum_gt 0 _ Hpos) as Hg.
  pose proof (cumsum_le_total 0 _ Hpos) as Hle. rewrite Hsum in Hle.
  set (cs := cumsum_from 0 (w0 / 2 :: t)) in *.
  set (f := fun c => lo + (hi - lo) * c).
  assert (Hf : forall c c', c < c' -> f c < f c') by (intros c c' Hc; unfold f; nra).
  constructor.
  - (* tail sorted: map f cs ++ [hi] *)
    clearbody cs. induction Hs as [|c l Hl IH Hc]; cbn.
    + repeat constructor.
    + inversion Hg; subst. inversion Hle; subst. constructor; [apply IH; assumption|].
      apply Forall_app. split.
      * apply Forall_forall. intros y Hy. apply in_map_iff in Hy as (c' & <- & Hc').
        rewrite Forall_forall in Hc. apply Hf, Hc, Hc'.
      * constructor; [|constructor]. unfold f. nra.
  - (* lo below everything *)
    apply Forall_app. split; [|constructor; [lra|constructor]].
    apply Forall_forall. intros y Hy. apply in_map_iff in Hy as (c & <- & Hc).
    rewrite Forall_forall in Hg. specialize (Hg c Hc). unfold f. nra.
Qed.
Check knots_strictly_increasing.
