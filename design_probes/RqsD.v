From Coq Require Import Reals Lra Psatz.
From Coquelicot Require Import Coquelicot.
Open Scope R_scope.

Section Bin.
  Variables xk w yk Dy dk dk1 : R.      (* w = x_{k+1}-x_k, Dy = y_{k+1}-y_k *)
  Hypothesis Hw : 0 < w. Hypothesis HDy : 0 < Dy.
  Hypothesis Hdk : 0 < dk. Hypothesis Hdk1 : 0 < dk1.
  Let s := Dy / w.
  Let E := dk1 + dk - 2 * s.
  Definition xi (x : R) := (x - xk) / w.
  Definition den (t : R) := s + E * t * (1 - t).
  Definition fwd (x : R) := yk + Dy * (s * (xi x * xi x) + dk * xi x * (1 - xi x)) / den (xi x).
  (* derivative(), eq. 5 *)
  Definition deriv (x : R) :=
    (s * s) * (dk1 * (xi x * xi x) + 2 * s * xi x * (1 - xi x) + dk * ((1 - xi x) * (1 - xi x)))
    / (den (xi x) * den (xi x)).

  Lemma s_pos : 0 < s. Proof. unfold s. apply Rdiv_lt_0_compat; assumption. Qed.

  Lemma den_pos t : 0 <= t <= 1 -> 0 < den t.
  Proof.
    intros Ht. unfold den, E. pose proof s_pos as Hs.
    replace (s + (dk1 + dk - 2 * s) * t * (1 - t)) with (s * (1 - 2*(t*(1-t))) + (dk1+dk) * (t*(1-t))) by ring.
    set (u := t*(1-t)). assert (0 <= u) by (unfold u; nra).
    assert (u <= /4) by (unfold u; pose proof (Rle_0_sqr (t - /2)) as Hq; unfold Rsqr in Hq; nra).
    assert (0 < s * (1 - 2*u)) by (apply Rmult_lt_0_compat; lra).
    assert (0 <= (dk1+dk) * u) by (apply Rmult_le_pos; lra). lra.
  Qed.

  Theorem fwd_is_derive x : xk <= x <= xk + w -> is_derive fwd x (deriv x).
  Proof.
    intros Hx.
    assert (Ht : 0 <= xi x <= 1).
    { unfold xi. split; [apply Rmult_le_pos; [lra| left; apply Rinv_0_lt_compat, Hw]|].
      apply Rmult_le_reg_r with w; [exact Hw|]. unfold Rdiv. rewrite Rmult_assoc, Rinv_l by lra. lra. }
    pose proof (den_pos _ Ht) as Hd.
    unfold fwd, deriv. unfold den, xi in *.
    auto_derive.
    - apply Rgt_not_eq. unfold Rminus, Rdiv in Hd. exact Hd.
    - assert (HDyS : Dy = s * w) by (subst s; field; lra).
      assert (Hs : 0 < s) by apply s_pos.
      rewrite HDyS. subst E. clearbody s. clear HDyS.
      assert (Hq : s * (w * w) + (dk1 + dk - 2 * s) * (x - xk) * (w - (x - xk)) <> 0).
      { apply Rgt_not_eq.
        replace (s * (w * w) + (dk1 + dk - 2 * s) * (x - xk) * (w - (x - xk)))
          with ((s + (dk1 + dk - 2 * s) * ((x - xk) / w) * (1 - (x - xk) / w)) * (w * w)) by (field; lra).
        apply Rmult_lt_0_compat; [exact Hd | nra]. }
      field. split; [lra|].
      intro Hz. apply Hq. rewrite <- Hz. ring.
  Qed.
End Bin.
Check fwd_is_derive.
