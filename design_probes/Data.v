From Coq Require Import List Lia Arith Permutation.
Import ListNotations.

Section Data.
  Variable Row : Type. Variable d : Row.
  Definition key := list nat.                                  (* PRNG keys are split paths *)
  Definition split (k : key) (n : nat) : list key := map (fun i => k ++ [i]) (seq 0 n).
  Variable perm : key -> nat -> list nat.                      (* jr.permutation's index permutation *)
  Hypothesis perm_ok : forall k n, Permutation (perm k n) (seq 0 n).

  Definition take (p : list nat) (l : list Row) : list Row := map (fun i => nth i l d) p.
  Definition shuffle (k : key) (l : list Row) : list Row := take (perm k (length l)) l.

  Lemma map_nth_seq (l : list Row) : map (fun i => nth i l d) (seq 0 (length l)) = l.
  Proof.
    apply (nth_ext _ _ d d); [now rewrite map_length, seq_length|].
    intros i Hi. rewrite map_length, seq_length in Hi.
    rewrite (nth_indep _ d (nth 0 l d)) by (now rewrite map_length, seq_length).
    rewrite (map_nth (fun i => nth i l d) (seq 0 (length l)) 0 i), seq_nth by exact Hi. reflexivity.
  Qed.
  Lemma shuffle_perm k l : Permutation (shuffle k l) l.
  Proof. unfold shuffle, take. etransitivity; [apply Permutation_map, perm_ok|]. rewrite map_nth_seq. reflexivity. Qed.
  Lemma shuffle_length k l : length (shuffle k l) = length l.
  Proof. apply Permutation_length, shuffle_perm. Qed.

  (* train_val_split : same key for every array -> modelled on rows; n_train arbitrary *)
  Definition tv_split (k : key) (data : list Row) (ntr : nat) := let s := shuffle k data in (firstn ntr s, skipn ntr s).
  Theorem split_partitions k data ntr :
    Permutation (fst (tv_split k data ntr) ++ snd (tv_split k data ntr)) data.
  Proof. unfold tv_split. cbn. rewrite firstn_skipn. apply shuffle_perm. Qed.

  (* batches: first nb*bs' rows, bs' = min bs n, nb = n / bs' *)
  Definition used (bs : nat) (l : list Row) : list Row :=
    let bs' := Nat.min bs (length l) in firstn ((length l / bs') * bs') l.
  Definition skipped (bs : nat) (l : list Row) : list Row :=
    let bs' := Nat.min bs (length l) in skipn ((length l / bs') * bs') l.
  Theorem only_trailing_remainder bs l : 1 <= bs -> l <> [] ->
    used bs l ++ skipped bs l = l /\ length (skipped bs l) = length l mod (Nat.min bs (length l)) /\
    length (skipped bs l) < Nat.min bs (length l).
  Proof.
    intros Hbs Hl. unfold used, skipped. set (n := length l). set (b := Nat.min bs n).
    assert (Hn : 1 <= n) by (subst n; destruct l; [congruence|cbn; lia]).
    assert (Hb : b <> 0) by (subst b; lia).
    split; [apply firstn_skipn|]. rewrite skipn_length. fold n.
    pose proof (Nat.div_mod n b Hb) as E. pose proof (Nat.mod_upper_bound n b Hb). split; nia.
  Qed.

  (* the per-epoch state: (train, val) reshuffled each epoch with two fresh keys *)
  Definition epoch_step (tv : list Row * list Row) (ks : key * key) :=
    (shuffle (fst ks) (fst tv), shuffle (snd ks) (snd tv)).
  Lemma epochs_perm : forall kss tv, 
    Permutation (fst (fold_left epoch_step kss tv)) (fst tv) /\ Permutation (snd (fold_left epoch_step kss tv)) (snd tv).
  Proof.
    induction kss as [|ks kss IH]; intros tv; cbn [fold_left]; [split; reflexivity|].
    destruct (IH (epoch_step tv ks)) as [H1 H2]. cbn in H1, H2.
    split; [rewrite H1|rewrite H2]; apply shuffle_perm.
  Qed.

  (* validation rows never reach a gradient step, in any epoch, for any batch size *)
  Theorem val_never_trained k data ntr kss bs r : NoDup data ->
    let tv := fold_left epoch_step kss (tv_split k data ntr) in
    In r (used bs (fst tv)) -> ~ In r (snd tv).
  Proof.
    intros Hnd tv Hin Hval.
    destruct (epochs_perm kss (tv_split k data ntr)) as [H1 H2]. fold tv in H1, H2.
    assert (Hnd' : NoDup (fst (tv_split k data ntr) ++ snd (tv_split k data ntr))).
    { eapply Permutation_NoDup; [symmetry; apply split_partitions | exact Hnd]. }
    assert (Hrt : In r (fst tv)).
    { unfold used in Hin. rewrite <- (firstn_skipn (length (fst tv) / Nat.min bs (length (fst tv)) * Nat.min bs (length (fst tv))) (fst tv)).
      apply in_or_app. left. exact Hin. }
    apply (Permutation_in _ H1) in Hrt. apply (Permutation_in _ H2) in Hval.
    (* r in both halves of a duplicate-free list *)
    clear -Hnd' Hrt Hval. induction (fst (tv_split k data ntr)) as [|a l IH]; [destruct Hrt|].
    cbn in Hnd'. inversion Hnd' as [|? ? Hna Hnd'']; subst. destruct Hrt as [->|Hr].
    - apply Hna. apply in_or_app. right. exact Hval.
    - apply IH; assumption.
  Qed.
End Data.
Print Assumptions val_never_trained.
