open Gen
let fops : float numOps = { n_add = ( +. ); n_mul = ( *. ); n_sub = ( -. ); n_div = ( /. );
  n_exp = exp; n_log = log; n_leb = (fun a b -> a <= b); n_of_Z = (fun z -> let rec p = function XH -> 1. | XO q -> 2. *. p q | XI q -> 2. *. p q +. 1. in match z with Z0 -> 0. | Zpos q -> p q | Zneg q -> -. (p q)) }
let () = Printf.printf "%h %h\n" (softplus fops (float_of_string "0x1.8p+1")) (affine_inv fops 1. 0. 3.)
