From Coq Require Import List ZArith Bool.
Import ListNotations.
Open Scope Z_scope.
Definition minimum (l : list Z) : Z := fold_right Z.min (hd 0 l) l.
Fixpoint argmin (l : list Z) : nat :=
  match l with [] => O | x :: t => match t with [] => O | _ => if x <=? minimum t then O else S (argmin t) end end.
Definition count_fruitless (l : list Z) : nat := (length l - argmin l - 1)%nat.
Record st := { seen : list Z; best : nat; cur : nat; stopped : bool }.
Definition epoch (P : nat) (s : st) (v : Z) : st :=
  if stopped s then s else
  let seen' := seen s ++ [v] in let cur' := S (cur s) in
  if v =? minimum seen' then {| seen := seen'; best := cur'; cur := cur'; stopped := false |}
  else {| seen := seen'; best := best s; cur := cur'; stopped := (P <? count_fruitless seen')%nat |}.
Definition fit_data_loop (P : nat) (vals : list Z) (max_epochs : nat) (return_best : bool) : nat * nat :=
  let s := fold_left (epoch P) (firstn max_epochs vals) {| seen := []; best := O; cur := O; stopped := false |} in
  ((if return_best then best s else cur s), length (seen s)).
(* variational loop AS THE CODE IS (D5): best := post-update params when the pre-update loss is the running min *)
Definition fit_var_loop (losses : list Z) (steps : nat) (return_best : bool) : nat * nat :=
  let ls := firstn steps losses in
  let '(seen, best, cur) := fold_left (fun '(seen, best, cur) v =>
      let seen' := seen ++ [v] in let cur' := S cur in
      (seen', (if v =? minimum seen' then cur' else best), cur')) ls ([], O, O) in
  ((if return_best then best else cur), length seen).
Require Extraction. Require Import ExtrOcamlBasic.
Extraction "loopm.ml" fit_data_loop fit_var_loop.
