import sys; sys.path.insert(0, "/verif/design_probes")
from common import *
import subprocess
rng = np.random.default_rng(0); reqs=[]; obs=[]; meta=[]
hx = lambda a: ",".join(float(v).hex() for v in np.asarray(a).ravel())
for trial in range(40):
    K = int(rng.integers(1, 7)); iv = [(2.,), (-1., 4.), (0.5,)][trial % 3]
    s = RationalQuadraticSpline(knots=K, interval=iv[0] if len(iv)==1 else iv)
    s = perturb(s, jr.PRNGKey(trial), 1.5 if trial % 4 else 0.0)
    u = unwrap(s); lo, hi = map(float, s.interval)
    pts = [lo, hi, np.nextafter(lo, -9), np.nextafter(lo, 9), np.nextafter(hi, 9), np.nextafter(hi, -9), 0.0, lo-1, hi+3] + list(np.asarray(u.x_pos)) + list(np.asarray(u.y_pos)) + list(rng.uniform(lo, hi, 6))
    for x in pts:
        for m, f in (("fwd", s.transform), ("inv", s.inverse)):
            reqs.append(f"{m} {hx(u.x_pos)} {hx(u.y_pos)} {hx(u.derivatives)} {lo.hex()} {hi.hex()} {float(x).hex()}")
            obs.append(float(f(jnp.asarray(float(x))))); meta.append((trial, m, float(x), lo, hi))
out = subprocess.run(["/verif/design_probes/e2e/drvr"], input="\n".join(reqs)+"\n", capture_output=True, text=True).stdout.split()
mod = [float.fromhex(o) if o not in ("nan", "-nan") else float("nan") for o in out]
bad = 0; exact = 0; d1 = 0
for o, m, me in zip(obs, mod, meta):
    same = (np.isnan(o) and np.isnan(m)) or o == m or abs(o - m) <= 1e-9 * max(1, abs(m))
    exact += (o == m)
    if not same: bad += 1; print("DISAGREE", me, o, m)
    if me[1] == "inv" and me[2] == me[3] and m == me[4]: d1 += 1
print("cases", len(obs), "disagreements", bad, "bit-exact", exact, "| D1 reproduced by the MODEL (inv(lo)=hi) in", d1, "cases")
