open Loopm
let rec nat_of_int n = if n <= 0 then O else S (nat_of_int (n - 1))
let rec int_of_nat = function O -> 0 | S n -> 1 + int_of_nat n
let rec pos_of_int n = if n = 1 then XH else if n land 1 = 0 then XO (pos_of_int (n lsr 1)) else XI (pos_of_int (n lsr 1))
let z_of_int n = if n = 0 then Z0 else if n > 0 then Zpos (pos_of_int n) else Zneg (pos_of_int (-n))
let () =
  try while true do
    let line = input_line stdin in
    match String.split_on_char ' ' (String.trim line) with
    | "data" :: p :: m :: rb :: vals ->
        let (a, b) = fit_data_loop (nat_of_int (int_of_string p)) (List.map (fun s -> z_of_int (int_of_string s)) vals) (nat_of_int (int_of_string m)) (rb = "1") in
        Printf.printf "%d %d\n" (int_of_nat a) (int_of_nat b)
    | "var" :: steps :: rb :: vals ->
        let (a, b) = fit_var_loop (List.map (fun s -> z_of_int (int_of_string s)) vals) (nat_of_int (int_of_string steps)) (rb = "1") in
        Printf.printf "%d %d\n" (int_of_nat a) (int_of_nat b)
    | _ -> print_endline "ERR"
  done with End_of_file -> ()
