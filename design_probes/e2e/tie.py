import sys; sys.path.insert(0, "/verif/design_probes")
from common import *
import itertools, optax, subprocess, time
from flowjax.train import fit_to_data, fit_to_variational_target
class M(eqx.Module):
    p: jax.Array
def counting():
    return optax.GradientTransformation(lambda params: (), lambda g, s, params=None: (jax.tree_util.tree_map(jnp.ones_like, g), s))
reqs=[]; obs=[]
x = jnp.arange(4.)[:,None]; t0=time.time()
for L in [1,2,3]:
    for perm in itertools.permutations(range(1, L+1)):
        table = jnp.asarray((0.,) + tuple(float(v) for v in perm) + (99.,)*3)
        def loss_fn(params, static, x, condition=None, key=None): return table[params.p.astype(int)] + 0*params.p.sum()
        for P, maxe, rb in itertools.product(range(0, L+1), range(0, L+1), [True, False]):
            d, losses = fit_to_data(jr.PRNGKey(0), M(jnp.array(0.)), x, loss_fn=loss_fn, max_epochs=maxe, max_patience=P, batch_size=3, val_prop=0.25, optimizer=counting(), return_best=rb, show_progress=False)
            reqs.append(f"data {P} {maxe} {int(rb)} " + " ".join(map(str, perm))); obs.append((int(d.p), len(losses["val"])))
        tv = jnp.asarray(tuple(float(v) for v in perm) + (99.,)*3)
        def vloss(params, static, key): return tv[params.p.astype(int)] + 0*params.p.sum()
        for steps, rb in itertools.product(range(0, L+1), [True, False]):
            d, losses = fit_to_variational_target(jr.PRNGKey(0), M(jnp.array(0.)), vloss, steps=steps, optimizer=counting(), return_best=rb, show_progress=False)
            reqs.append(f"var {steps} {int(rb)} " + " ".join(map(str, perm))); obs.append((int(d.p), len(losses)))
t1=time.time()
out = subprocess.run(["/verif/design_probes/e2e/drv"], input="\n".join(reqs)+"\n", capture_output=True, text=True).stdout.split("\n")
mod = [tuple(map(int, l.split())) for l in out if l.strip()]
print("cases", len(reqs), "impl time %.1fs" % (t1-t0), "model time %.2fs" % (time.time()-t1), "disagreements", sum(1 for a, b in zip(obs, mod) if a != b))
