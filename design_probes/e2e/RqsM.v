From Coq Require Import List ZArith Bool.
Import ListNotations.

Record NumOps (A : Type) := {
  n_add : A -> A -> A; n_sub : A -> A -> A; n_mul : A -> A -> A; n_div : A -> A -> A;
  n_sqrt : A -> A; n_leb : A -> A -> bool; n_ltb : A -> A -> bool; n_ofZ : Z -> A }.
Arguments n_add {A}. Arguments n_sub {A}. Arguments n_mul {A}. Arguments n_div {A}. Arguments n_sqrt {A}.
Arguments n_leb {A}. Arguments n_ltb {A}. Arguments n_ofZ {A}.

Section RQS.
  Context {A : Type} (O : NumOps A).
  Local Notation "a + b" := (n_add O a b). Local Notation "a - b" := (n_sub O a b).
  Local Notation "a * b" := (n_mul O a b). Local Notation "a / b" := (n_div O a b).
  Definition c (z : Z) : A := n_ofZ O z.

  (* NumPy/JAX gather: negative index wraps once, then clamps into range *)
  Definition getz (l : list A) (i : Z) : A :=
    let n := Z.of_nat (length l) in
    let j := if (i <? 0)%Z then (i + n)%Z else i in
    let j := Z.max 0 (Z.min (n - 1) j) in
    nth (Z.to_nat j) l (c 0).
  (* jnp.searchsorted(side='left'): number of elements strictly below v *)
  Fixpoint searchsorted (l : list A) (v : A) : Z :=
    match l with [] => 0%Z | x :: t => if n_ltb O x v then (1 + searchsorted t v)%Z else 0%Z end.
  Definition where_ (b : bool) (x y : A) : A := if b then x else y.
  Definition clip (x lo hi : A) : A := if n_ltb O x lo then lo else if n_ltb O hi x then hi else x.

  Definition rqs_fwd (xp yp dv : list A) (lo hi x : A) : A :=
    let inb := n_leb O lo x && n_leb O x hi in
    let xr := where_ inb x (c 0) in
    let k := (searchsorted xp xr - 1)%Z in
    let xk := getz xp k in let xk1 := getz xp (k + 1) in
    let yk := getz yp k in let yk1 := getz yp (k + 1) in
    let xi := (xr - xk) / (xk1 - xk) in
    let sk := (yk1 - yk) / (xk1 - xk) in
    let dk := getz dv k in let dk1 := getz dv (k + 1) in
    let num := (yk1 - yk) * (sk * (xi * xi) + dk * xi * (c 1 - xi)) in
    let den := sk + (dk1 + dk - c 2 * sk) * xi * (c 1 - xi) in
    let y := clip (yk + num / den) lo hi in
    where_ inb y x.

  Definition rqs_inv (xp yp dv : list A) (lo hi y : A) : A :=
    let inb := n_leb O lo y && n_leb O y hi in
    let yr := where_ inb y (c 0) in
    let k := (searchsorted yp yr - 1)%Z in
    let xk := getz xp k in let xk1 := getz xp (k + 1) in
    let yk := getz yp k in let yk1 := getz yp (k + 1) in
    let sk := (yk1 - yk) / (xk1 - xk) in
    let dk := getz dv k in let dk1 := getz dv (k + 1) in
    let t := (yr - yk) * (dk1 + dk - c 2 * sk) in
    let a := (yk1 - yk) * (sk - dk) + t in
    let b := (yk1 - yk) * dk - t in
    let cc := (c 0 - sk) * (yr - yk) in
    let sq := n_sqrt O (b * b - c 4 * a * cc) in
    let xi := (c 2 * cc) / ((c 0 - b) - sq) in
    let x := clip (xi * (xk1 - xk) + xk) lo hi in
    where_ inb x y.
End RQS.
Require Extraction. Require Import ExtrOcamlBasic.
Extraction "rqsm.ml" rqs_fwd rqs_inv.
