open Rqsm
let rec fpos = function XH -> 1. | XO q -> 2. *. fpos q | XI q -> 2. *. fpos q +. 1.
let fz = function Z0 -> 0. | Zpos q -> fpos q | Zneg q -> -. fpos q
let ops : float numOps = { n_add = ( +. ); n_sub = ( -. ); n_mul = ( *. ); n_div = ( /. ); n_sqrt = Float.sqrt;
  n_leb = (fun a b -> a <= b); n_ltb = (fun a b -> a < b); n_ofZ = fz }
let floats s = List.map float_of_string (List.filter (fun x -> x <> "") (String.split_on_char ',' s))
let () =
  try while true do
    match String.split_on_char ' ' (String.trim (input_line stdin)) with
    | [m; xp; yp; dv; lo; hi; x] ->
        let f = if m = "fwd" then rqs_fwd else rqs_inv in
        Printf.printf "%h\n" (f ops (floats xp) (floats yp) (floats dv) (float_of_string lo) (float_of_string hi) (float_of_string x))
    | _ -> print_endline "ERR"
  done with End_of_file -> ()
