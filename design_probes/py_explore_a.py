from common import *
key = jr.PRNGKey(1)
def leafs():
    k = jr.split(key, 20)
    yield "Affine", perturb(Affine(jnp.array([0.5,-1.0,2.0]), jnp.array([0.5,2.0,1.0])), k[0]), None
    yield "Affine neg", eqx.tree_at(lambda a: a.scale, Affine(jnp.ones(3)), jnp.array([-2.0, 0.5, -0.1])), None
    yield "Scale", perturb(Scale(jnp.array([0.5,2.0])), k[1]), None
    yield "Loc", Loc(jnp.array([0.5,2.0])), None
    yield "Tri lower", perturb(TriangularAffine(jnp.arange(3.), jnp.array([[1.,5,5],[2,1.5,5],[-1,0.3,0.7]])), k[2]), None
    yield "Tri upper", perturb(TriangularAffine(jnp.arange(3.), jnp.array([[1.,5,5],[2,1.5,5],[-1,0.3,0.7]]), lower=False), k[3]), None
    yield "Exp", Exp((2,)), None
    yield "SoftPlus", SoftPlus((2,)), None
    yield "Tanh", Tanh((2,)), None
    yield "LeakyTanh", LeakyTanh(1.5, (2,)), None
    yield "RQS", perturb(RationalQuadraticSpline(knots=5, interval=2), k[4], 1.5), None
    yield "RQS tuple", perturb(RationalQuadraticSpline(knots=3, interval=(-1, 4)), k[5], 1.5), None
    yield "Planar lrelu", perturb(Planar(k[6], dim=3, negative_slope=0.1), k[7]), None
    yield "Planar cond lrelu", perturb(Planar(k[8], dim=3, cond_dim=2, negative_slope=0.3, width_size=4, depth=1), k[9]), jnp.array([0.3,-0.7])
    yield "Permute", Permute(jnp.array([[2,0],[1,3]])), None
    yield "Flip", Flip((3,)), None
    yield "Coupling", perturb(Coupling(k[10], transformer=Affine(), untransformed_dim=1, dim=3, nn_width=5, nn_depth=1), k[11]), None
    yield "Coupling RQS cond", perturb(Coupling(k[12], transformer=RationalQuadraticSpline(knots=3, interval=2), untransformed_dim=2, dim=4, cond_dim=2, nn_width=5, nn_depth=1), k[13]), jnp.array([0.3,-0.7])
    yield "MAF", perturb(MaskedAutoregressive(k[14], transformer=Affine(), dim=3, nn_width=5, nn_depth=2), k[15]), None
    yield "MAF RQS cond", perturb(MaskedAutoregressive(k[16], transformer=RationalQuadraticSpline(knots=3, interval=2), dim=3, cond_dim=2, nn_width=6, nn_depth=1), k[17]), jnp.array([0.3,-0.7])
    yield "BNAF", perturb(BlockAutoregressiveNetwork(k[18], dim=3, depth=1, block_dim=3), k[19], 0.5), None
    yield "BNAF cond d2", perturb(BlockAutoregressiveNetwork(k[18], dim=2, cond_dim=2, depth=2, block_dim=2), k[19], 0.5), jnp.array([0.3,-0.7])
def inputs(b, name):
    sh = b.shape; n = int(np.prod(sh)) if sh else 1
    base = [0.0, 1.0, -1.0, 2.0, -2.0, 1.5, -1.5, 4.0, 0.3, -0.7, 1e4, -1e4, float(np.tanh(1.5)), 3.0, -3.0]
    rng = np.random.default_rng(0)
    out = [np.full(sh, v) for v in base] + [rng.normal(size=sh)*s for s in (1, 3, 0.1)]
    if "RQS" in name and sh == ():
        u = unwrap(b); out += [np.asarray(v) for v in u.x_pos] + [np.asarray(v) for v in u.y_pos]
    return out
bad = 0
for name, b, c in leafs():
    worst_rt = worst_rt2 = worst_ld = 0.0; nfail=0
    for x in inputs(b, name):
        x = jnp.asarray(x, float)
        try:
            y, ld = b.transform_and_log_det(x, c)
            if not bool(jnp.all(jnp.isfinite(y))): continue
            assert ld.shape == (), (name, ld.shape)
            y0 = b.transform(x, c); assert bool(jnp.array_equal(y0, y, equal_nan=True)) or float(jnp.max(jnp.abs(y0-y))) < 1e-12, (name, "t vs tld")
            J = jax.jacobian(lambda x: b.transform(x, c))(x).reshape(max(1,x.size), max(1,x.size))
            sld = jnp.linalg.slogdet(J)[1]
            e_ld = abs(float(ld - sld))
            xr, ldi = b.inverse_and_log_det(y, c)
            e_rt = float(jnp.max(jnp.abs(xr - x))) / max(1.0, float(jnp.max(jnp.abs(x))))
            e_ldi = abs(float(ldi + ld))
            # codomain -> domain direction: use x itself as y if in codomain
            xi = b.inverse(x, c)
            if bool(jnp.all(jnp.isfinite(xi))):
                e_rt2 = float(jnp.max(jnp.abs(b.transform(xi, c) - x))) / max(1.0, float(jnp.max(jnp.abs(x))))
            else: e_rt2 = 0.0
            if max(e_ld, e_ldi) > 1e-6 or e_rt > 1e-6 or e_rt2 > 1e-6:
                nfail += 1
                if nfail <= 3: print("  FAIL", name, "x=", np.asarray(x).ravel()[:4], "e_ld %.2e e_ldi %.2e e_rt %.2e e_rt2 %.2e" % (e_ld, e_ldi, e_rt, e_rt2))
            worst_rt=max(worst_rt,e_rt); worst_rt2=max(worst_rt2,e_rt2); worst_ld=max(worst_ld,e_ld,e_ldi)
        except NotImplementedError: pass
    print(f"{name:20s} rt {worst_rt:.1e} rt2 {worst_rt2:.1e} ld {worst_ld:.1e} fails {nfail}")
