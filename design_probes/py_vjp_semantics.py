# Prototype of the planned `vjp` semantics (DESIGN 4.18) in plain Python floats, to check the
# transcription of JAX's adjoint rules reproduces the NaN/finite pattern of jax.grad both ways.
import sys; sys.path.insert(0, "/verif/design_probes")
from common import *
import math
INF, NAN = float("inf"), float("nan")
class E:  # expression nodes: ('var',name) ('c',v) (op, args...)
    pass
def ev(e, env):
    op = e[0]
    if op == 'var': return env[e[1]]
    if op == 'c': return e[1]
    a = [ev(x, env) for x in e[1:]] if op not in ('where',) else None
    f = np.float64
    with np.errstate(all='ignore'):
        if op == 'add': return float(f(a[0]) + f(a[1]))
        if op == 'sub': return float(f(a[0]) - f(a[1]))
        if op == 'mul': return float(f(a[0]) * f(a[1]))
        if op == 'div': return float(f(a[0]) / f(a[1]))
        if op == 'atanh': return float(np.arctanh(f(a[0])))
        if op == 'tanh': return float(np.tanh(f(a[0])))
        if op == 'log': return float(np.log(f(a[0])))
        if op == 'sqrt': return float(np.sqrt(f(a[0])))
        if op == 'abs': return abs(a[0])
        if op == 'sign': return float(np.sign(f(a[0])))
        if op == 'where':
            c = ev(e[1], env); return ev(e[2], env) if c else ev(e[3], env)
        if op == 'ge': return a[0] >= a[1]
    raise KeyError(op)
def vjp(e, g, env, grad):
    """accumulate adjoint g of e into grad[var]; IEEE arithmetic so 0*inf = nan"""
    op = e[0]; f = np.float64
    with np.errstate(all='ignore'):
        if op == 'var': grad[e[1]] = float(f(grad.get(e[1], 0.0)) + f(g)); return
        if op == 'c': return
        if op == 'add': vjp(e[1], g, env, grad); vjp(e[2], g, env, grad); return
        if op == 'sub': vjp(e[1], g, env, grad); vjp(e[2], -g, env, grad); return
        if op == 'mul':
            a, b = ev(e[1], env), ev(e[2], env); vjp(e[1], float(f(g)*f(b)), env, grad); vjp(e[2], float(f(g)*f(a)), env, grad); return
        if op == 'div':
            a, b = ev(e[1], env), ev(e[2], env); vjp(e[1], float(f(g)/f(b)), env, grad); vjp(e[2], float(-f(g)*f(a)/(f(b)*f(b))), env, grad); return
        if op == 'atanh': a = ev(e[1], env); vjp(e[1], float(f(g) / (f(1) - f(a)*f(a))), env, grad); return   # jax: g * reciprocal(1 - x^2)... 
        if op == 'tanh': y = ev(e, env); vjp(e[1], float(f(g) * (f(1) - f(y)*f(y))), env, grad); return
        if op == 'log': a = ev(e[1], env); vjp(e[1], float(f(g)/f(a)), env, grad); return
        if op == 'sqrt': y = ev(e, env); vjp(e[1], float(f(g) * (f(0.5)/f(y))), env, grad); return
        if op == 'abs': a = ev(e[1], env); vjp(e[1], float(f(g) * np.sign(f(a))), env, grad); return
        if op == 'sign': return
        if op == 'where':
            c = ev(e[1], env); vjp(e[2], g if c else 0.0, env, grad); vjp(e[3], 0.0 if c else g, env, grad); return
    raise KeyError(op)
V = lambda n: ('var', n); C = lambda v: ('c', float(v))
# LeakyTanh.inverse as coded:  where(|y| >= tanh(m), (y - sign(y)*ic)/g, arctanh(y))
m = 3.0; lg = math.exp(-2*(m + math.log1p(math.exp(-2*m)) - math.log(2.0))); ic = math.tanh(m) - lg*m
inv = ('where', ('ge', ('abs', V('y')), C(math.tanh(m))), ('div', ('sub', V('y'), ('mul', ('sign', V('y')), C(ic))), C(lg)), ('atanh', V('y')))
inv_fixed = ('where', ('ge', ('abs', V('y')), C(math.tanh(m))), ('div', ('sub', V('y'), ('mul', ('sign', V('y')), C(ic))), C(lg)),
             ('atanh', ('where', ('ge', ('abs', V('y')), C(math.tanh(m))), C(0.0), V('y'))))
b = LeakyTanh(m)
pts = [0.0, 0.5, -0.5, math.tanh(m), -math.tanh(m), np.nextafter(math.tanh(m), 0), np.nextafter(math.tanh(m), 2), 1.0, -1.0, np.nextafter(1.0, 2), np.nextafter(1.0, 0), 2.0, -2.0, 1e4]
agree = 0
for y in pts:
    gm = {}; vjp(inv, 1.0, {'y': float(y)}, gm); gf = {}; vjp(inv_fixed, 1.0, {'y': float(y)}, gf)
    gi = float(jax.grad(lambda y: b.inverse(y))(jnp.asarray(float(y))))
    vm = ev(inv, {'y': float(y)}); vi = float(b.inverse(jnp.asarray(float(y))))
    ok = (math.isfinite(gm['y']) == math.isfinite(gi)) and (vm == vi or abs(vm-vi) <= 1e-12*max(1,abs(vi)))
    agree += ok
    print(f"y={float(y):+.17g} model grad {gm['y']:+.6g} jax grad {gi:+.6g} value {vm:+.6g}/{vi:+.6g} {'ok' if ok else 'DISAGREE'} | fixed-formula grad {gf['y']:+.6g}")
print("agree", agree, "of", len(pts))
