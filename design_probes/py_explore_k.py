from common import *
import itertools, optax
from flowjax.train import fit_to_data
# ---- C15 clauses on the observed call list
class M(eqx.Module):
    p: jax.Array
def counting():
    return optax.GradientTransformation(lambda params: (), lambda g, s, params=None: (jax.tree_util.tree_map(jnp.ones_like, g), s))
bad=0; n=0
for nn, bs, vp, hc, ep in itertools.product([2,3,5,8,13], [1,2,3,7,20], [0.1,0.3,0.5,0.8], [False, True], [1,3]):
    ntr = nn - round(vp*nn)
    if ntr <= 0 or ntr >= nn: continue
    seen=[]
    def loss_fn(params, static, x, condition=None, key=None):
        cc = jnp.zeros_like(x) if condition is None else condition
        jax.debug.callback(lambda x,c,k,p: seen.append((np.asarray(x)[:,0].astype(int).tolist(), np.asarray(c)[:,0].astype(int).tolist(), tuple(np.asarray(k).tolist()), int(p))), x, cc, key, params.p, ordered=True)
        return 0*params.p + x.sum()*0 + 1.0
    x = jnp.arange(nn, dtype=float)[:,None]; c = (1000+jnp.arange(nn, dtype=float))[:,None] if hc else None
    d, losses = fit_to_data(jr.PRNGKey(nn*31+bs), M(jnp.array(0.0)), x, condition=c, loss_fn=loss_fn, max_epochs=ep, max_patience=100, batch_size=bs, val_prop=vp, optimizer=counting(), show_progress=False)
    jax.effects_barrier(); n+=1
    # classify calls: train calls have increasing params counter; val calls occur after all train batches of the epoch. identify by structure:
    bs_t = min(bs, ntr); nbt = ntr // bs_t; nval = nn - ntr; bs_v = min(bs, nval); nbv = nval // bs_v
    per_epoch = nbt + nbv
    ok = len(seen) == per_epoch * ep
    keys = [s[2] for s in seen]; ok &= len(set(keys)) == len(keys)
    train_rows_all=set(); val_rows_all=set()
    for e in range(ep):
        calls = seen[e*per_epoch:(e+1)*per_epoch]; tr = calls[:nbt]; va = calls[nbt:]
        rows = [r for cl in tr for r in cl[0]]; ok &= len(rows) == len(set(rows)) == nbt*bs_t
        ok &= all(len(cl[0]) == bs_t for cl in tr) and all(len(cl[0]) == bs_v for cl in va)
        if hc: ok &= all([r+1000 for r in cl[0]] == cl[1] for cl in calls)
        train_rows_all |= set(rows); val_rows_all |= {r for cl in va for r in cl[0]}
        ok &= [cl[3] for cl in tr] == list(range(e*nbt, (e+1)*nbt)) and all(cl[3] == (e+1)*nbt for cl in va)
    ok &= not (train_rows_all & val_rows_all) and len(train_rows_all) <= ntr and len(val_rows_all) <= nval
    if not ok: bad+=1; print("C15 FAIL", nn, bs, vp, hc, ep, seen[:3])
print("C15 runs", n, "bad", bad)
# ---- C11 raw box
bad=0
for raw in [-50., -5., 0., 5., 50.]:
    for dt in (jnp.float32, jnp.float64):
        a = Affine(jnp.zeros(3, dt), jnp.ones(3, dt)); a = eqx.tree_at(lambda a: a.scale.arr, a, jnp.full(3, raw, dt))
        s = unwrap(a).scale
        if not (s > 0).all(): bad+=1; print("Affine scale not >0 at raw", raw, dt.__name__, s)
        sp = RationalQuadraticSpline(knots=4, interval=2)
        sp = eqx.tree_at(lambda s: (s.x_pos.args[0], s.y_pos.args[0], s.derivatives.args[0]), sp, (jnp.asarray([raw, -raw, 0., raw], dt), jnp.asarray([-raw, raw, raw, 0.], dt), jnp.full(6, raw, dt)))
        u = unwrap(sp)
        if not ((np.diff(np.asarray(u.x_pos)) > 0).all() and (np.diff(np.asarray(u.y_pos)) > 0).all() and (np.asarray(u.derivatives) >= sp.min_derivative).all() and u.x_pos[0] == -2 and u.x_pos[-1] == 2):
            bad+=1; print("spline constraint FAIL raw", raw, dt.__name__, u.x_pos, u.derivatives)
        df = StudentT(jnp.asarray(3., dt)); df = eqx.tree_at(lambda d: d.base_dist.df.arr, df, jnp.asarray(raw, dt))
        if not (df.df > 0): bad+=1; print("df not >0", raw, dt.__name__, df.df)
print("C11 bad", bad)
for mag in [1e-6, 1e-3, 1., 1e3, 1e6]:
    print(mag, float(Normal(0., mag).scale/mag - 1), float(Exponential(mag).rate/mag - 1), float(StudentT(mag).df/mag - 1), float(Uniform(0., mag).maxval/mag - 1))
