from common import *
import scipy.stats as st
rng = np.random.default_rng(0)
def chk(name, d, ref, xs):
    lp = np.asarray(d.log_prob(jnp.asarray(xs)))
    r = ref(xs)
    with np.errstate(invalid="ignore"):
        err = np.where(np.isfinite(r) | np.isfinite(lp), np.abs(lp - r), 0.0)
        err = np.where((lp == r), 0.0, err)
    print(f"{name:14s} maxerr {np.nanmax(err):.2e} nan {np.isnan(lp).any()}  lp[:4] {lp[:4]}")
xs = np.array([-3., -1., -1e-9, 0., 0.5, 1., 2., 2.5, 7., 50.])
chk("Normal", Normal(0.5, 2.0), lambda x: st.norm(0.5, 2.0).logpdf(x), xs)
chk("LogNormal", LogNormal(0.5, 2.0), lambda x: st.lognorm(s=2.0, scale=np.exp(0.5)).logpdf(x), xs)
chk("Uniform", Uniform(-1.0, 2.5), lambda x: st.uniform(-1.0, 3.5).logpdf(x), xs)
chk("Gumbel", Gumbel(0.5, 2.0), lambda x: st.gumbel_r(0.5, 2.0).logpdf(x), xs)
chk("Cauchy", Cauchy(0.5, 2.0), lambda x: st.cauchy(0.5, 2.0).logpdf(x), xs)
chk("StudentT", StudentT(3.5, 0.5, 2.0), lambda x: st.t(3.5, 0.5, 2.0).logpdf(x), xs)
chk("Laplace", Laplace(0.5, 2.0), lambda x: st.laplace(0.5, 2.0).logpdf(x), xs)
chk("Exponential", Exponential(2.0), lambda x: st.expon(scale=0.5).logpdf(x), xs)
chk("Logistic", Logistic(0.5, 2.0), lambda x: st.logistic(0.5, 2.0).logpdf(x), xs)
# vector broadcasting, sum over dims
loc = np.array([[0.,1.,2.]]); sc = np.array([[0.5],[2.0]])
d = Normal(loc, sc); x = rng.normal(size=(4,2,3))
print("Normal matrix", d.shape, np.abs(np.asarray(d.log_prob(x)) - st.norm(loc, sc).logpdf(x).sum((-1,-2))).max())
d = StudentT(np.array([2.,5.,9.]), loc[0], 1.5); x = rng.normal(size=(4,3))
print("StudentT vec", d.shape, np.abs(np.asarray(d.log_prob(x)) - st.t(np.array([2.,5.,9.]), loc[0], 1.5).logpdf(x).sum(-1)).max(), d.df, d.loc, d.scale)
cov = np.array([[2.,0.5],[0.5,1.]]); d = MultivariateNormal(np.array([1.,-1.]), jnp.asarray(cov)); x = rng.normal(size=(5,2))
print("MVN", np.abs(np.asarray(d.log_prob(x)) - st.multivariate_normal([1.,-1.], cov).logpdf(x)).max(), np.abs(np.asarray(d.covariance)-cov).max())
w = np.array([1., 3., 0.5]); comp = eqx.filter_vmap(Normal)(jnp.array([-2.,0.,3.]), jnp.array([0.5,1.,2.]))
m = VmapMixture(comp, jnp.asarray(w)); m2 = VmapMixture(comp, jnp.asarray(7*w)); x = rng.normal(size=6)*3
ref = np.log(sum(wi/w.sum()*st.norm(l,s).pdf(x) for wi,l,s in zip(w,[-2.,0.,3.],[0.5,1.,2.])))
print("Mixture", np.abs(np.asarray(m.log_prob(x))-ref).max(), np.abs(np.asarray(m.log_prob(x))-np.asarray(m2.log_prob(x))).max())
print("accessors", Uniform(-1.,2.5).minval, Uniform(-1.,2.5).maxval, Exponential(2.0).rate, Normal(0.5,2.).scale)
# sampler primitive ids
k = jr.PRNGKey(5)
for nm, d, prim in [("normal", Normal(0.,1.).base_dist, jr.normal), ("uniform", Uniform(0.,1.).base_dist, jr.uniform), ("gumbel", Gumbel().base_dist, jr.gumbel), ("cauchy", Cauchy().base_dist, jr.cauchy), ("laplace", Laplace().base_dist, jr.laplace), ("expon", Exponential().base_dist, jr.exponential), ("logistic", Logistic().base_dist, jr.logistic)]:
    print(nm, float(d._sample(k)) == float(prim(k, ())), end="; ")
print()
