From Coq Require Import List Lia.
Import ListNotations.

Section Tree.
  Variable A : Type.             (* array values *)
  Variable K : Type.             (* wrapper kinds: NonTrainable | Reparam bij | Where | WeightNorm | Lambda f *)
  Inductive tree := Leaf (v : A) | Node (l : list tree) | W (k : K) (l : list tree).

  Lemma tree_ind' (P : tree -> Prop) :
    (forall v, P (Leaf v)) -> (forall l, Forall P l -> P (Node l)) -> (forall k l, Forall P l -> P (W k l)) ->
    forall t, P t.
  Proof.
    intros HL HN HW. fix IH 1. intros [v|l|k l]; [apply HL | apply HN | apply HW];
      (induction l as [|t l IHl]; constructor; [apply IH | exact IHl]).
  Qed.

  Fixpoint clean (t : tree) : Prop :=      (* no wrapper node anywhere *)
    match t with Leaf _ => True | Node l => fold_right (fun t acc => clean t /\ acc) True l | W _ _ => False end.
  Lemma clean_Node l : clean (Node l) <-> Forall clean l.
  Proof. cbn. induction l; cbn; split; intros H; try constructor; try tauto; inversion H; tauto. Qed.

  (* what a wrapper does with its (already unwrapped) children; it may return any wrapper-free tree *)
  Variable apply : K -> list tree -> tree.
  Hypothesis apply_clean : forall k l, Forall clean l -> clean (apply k l).

  Fixpoint unwrap (t : tree) : tree :=
    match t with Leaf v => Leaf v | Node l => Node (map unwrap l) | W k l => apply k (map unwrap l) end.

  Theorem unwrap_clean t : clean (unwrap t).
  Proof.
    induction t as [v|l IH|k l IH] using tree_ind'; cbn [unwrap].
    - exact I.
    - apply clean_Node. apply Forall_map. exact IH.
    - apply apply_clean. apply Forall_map. exact IH.
  Qed.
  Lemma unwrap_id_on_clean t : clean t -> unwrap t = t.
  Proof.
    induction t as [v|l IH|k l IH] using tree_ind'; intros Hc; cbn [unwrap].
    - reflexivity.
    - f_equal. apply clean_Node in Hc. induction l as [|t l IHl]; [reflexivity|].
      cbn. inversion IH; subst. inversion Hc; subst. f_equal; auto.
    - destruct Hc.
  Qed.
  Theorem unwrap_idempotent t : unwrap (unwrap t) = unwrap t.
  Proof. apply unwrap_id_on_clean, unwrap_clean. Qed.

  (* each wrapper is applied exactly once: an INSTRUMENTED unwrap returns the result together with
     the ids of the wrappers whose `apply` it actually ran, in order *)
  Variable id_of : K -> nat.
  Fixpoint ids (t : tree) : list nat :=
    match t with Leaf _ => [] | Node l => flat_map ids l | W k l => id_of k :: flat_map ids l end.
  Fixpoint unwrap_i (t : tree) : tree * list nat :=
    match t with
    | Leaf v => (Leaf v, [])
    | Node l => let rs := map unwrap_i l in (Node (map fst rs), flat_map snd rs)
    | W k l => let rs := map unwrap_i l in (apply k (map fst rs), flat_map snd rs ++ [id_of k])   (* inside-out *)
    end.
  Lemma map_fst_i l : Forall (fun t => fst (unwrap_i t) = unwrap t) l -> map fst (map unwrap_i l) = map unwrap l.
  Proof. induction 1; cbn; [reflexivity|]. now rewrite H, IHForall. Qed.
  Theorem unwrap_i_result t : fst (unwrap_i t) = unwrap t.
  Proof.
    induction t as [v|l IH|k l IH] using tree_ind'; cbn; try reflexivity; now rewrite map_fst_i.
  Qed.
  Require Import Permutation.
  Lemma flat_snd_perm l : Forall (fun t => Permutation (snd (unwrap_i t)) (ids t)) l ->
    Permutation (flat_map snd (map unwrap_i l)) (flat_map ids l).
  Proof. induction 1; cbn; [constructor|]. now apply Permutation_app. Qed.
  Theorem unwrap_each_once t : Permutation (snd (unwrap_i t)) (ids t).
  Proof.
    induction t as [v|l IH|k l IH] using tree_ind'; cbn.
    - constructor.
    - now apply flat_snd_perm.
    - rewrite Permutation_app_comm. cbn. constructor. now apply flat_snd_perm.
  Qed.
End Tree.
Check unwrap_idempotent.
Print Assumptions unwrap_idempotent.
