From Coq Require Import List ZArith Lia Bool Arith.
Import ListNotations.

(* losses are Z (any decidable total order works the same way) *)
Open Scope Z_scope.

Definition minimum (l : list Z) : Z := fold_right Z.min (hd 0 l) l.
(* first index of the minimum, like jnp.argmin *)
Fixpoint argmin (l : list Z) : nat :=
  match l with
  | [] => O
  | x :: t => match t with [] => O | _ => if x <=? minimum t then O else S (argmin t) end
  end.
Definition count_fruitless (l : list Z) : nat := (length l - argmin l - 1)%nat.

(* the loop of fit_to_data, one validation loss per epoch; parameters named by epoch number *)
Record st := { seen : list Z; best : nat; stopped : bool }.
Definition epoch (P : nat) (s : st) (v : Z) : st :=
  if stopped s then s else
  let seen' := seen s ++ [v] in
  if v =? minimum seen' then {| seen := seen'; best := length seen'; stopped := false |}
  else {| seen := seen'; best := best s; stopped := (P <? count_fruitless seen')%nat |}.
Definition run (P : nat) (vals : list Z) : st :=
  fold_left (epoch P) vals {| seen := []; best := O; stopped := false |}.

(* SPEC, written independently: epoch e (1-based) is "exhausted" when it is not a new minimum and
   more than P epochs have passed since the first minimum of the prefix *)
Definition exhausted (P : nat) (vals : list Z) (e : nat) : bool :=
  let pre := firstn e vals in
  negb (nth (e - 1) vals 0 =? minimum pre) && (P <? e - 1 - argmin pre)%nat.

(* invariant: not stopped  <->  no epoch so far was exhausted; seen = the prefix consumed *)
Lemma run_app P l v : run P (l ++ [v]) = epoch P (run P l) v.
Proof. unfold run. now rewrite fold_left_app. Qed.

Lemma firstn_app_len {A} (l : list A) v : firstn (length l) (l ++ [v]) = l.
Proof. rewrite firstn_app, Nat.sub_diag, firstn_all. cbn. apply app_nil_r. Qed.

Theorem run_spec P : forall vals,
  let s := run P vals in
  (stopped s = false -> seen s = vals /\ forall e, (1 <= e <= length vals)%nat -> exhausted P vals e = false) /\
  (stopped s = true -> exists e, (1 <= e <= length vals)%nat /\ seen s = firstn e vals /\ exhausted P vals e = true /\
                                 forall e', (1 <= e' < e)%nat -> exhausted P vals e' = false).
Proof.
  induction vals as [|v l IH] using rev_ind.
  - cbn. split; [intros _; split; [reflexivity|intros e He; lia] | discriminate].
  - cbn zeta in *. rewrite run_app. destruct IH as [IHf IHt]. unfold epoch.
    destruct (stopped (run P l)) eqn:Es.
    + (* already stopped: nothing changes *)
      split; [congruence|]. intros _. destruct (IHt eq_refl) as (e & He & Hs & Hx & Hmin).
      assert (Hpre : forall k, (k <= length l)%nat -> firstn k (l ++ [v]) = firstn k l).
      { intros k Hk. rewrite firstn_app. replace (k - length l)%nat with O by lia. cbn. apply app_nil_r. }
      assert (Hex : forall k, (1 <= k <= length l)%nat -> exhausted P (l ++ [v]) k = exhausted P l k).
      { intros k Hk. unfold exhausted. rewrite Hpre by lia. rewrite app_nth1 by lia. reflexivity. }
      exists e. rewrite app_length; cbn [length]. repeat split; try lia.
      * rewrite Hpre by lia. exact Hs.
      * rewrite Hex by lia. exact Hx.
      * intros e' He'. rewrite Hex by lia. apply Hmin, He'.
    + destruct (IHf eq_refl) as [Hseen Hno]. rewrite Hseen.
      assert (Hpre : forall k, (k <= length l)%nat -> firstn k (l ++ [v]) = firstn k l).
      { intros k Hk. rewrite firstn_app. replace (k - length l)%nat with O by lia. cbn. apply app_nil_r. }
      assert (Hex : forall k, (1 <= k <= length l)%nat -> exhausted P (l ++ [v]) k = exhausted P l k).
      { intros k Hk. unfold exhausted. rewrite Hpre by lia. rewrite app_nth1 by lia. reflexivity. }
      assert (Hlast : exhausted P (l ++ [v]) (length (l ++ [v])) =
                      negb (v =? minimum (l ++ [v])) && (P <? count_fruitless (l ++ [v]))%nat).
      { unfold exhausted, count_fruitless. rewrite firstn_all. rewrite app_length; cbn [length].
        replace (length l + 1 - 1)%nat with (length l) by lia. rewrite app_nth2, Nat.sub_diag by lia. cbn [nth].
        replace (length l + 1 - argmin (l ++ [v]) - 1)%nat with (length l - argmin (l ++ [v]))%nat by lia. reflexivity. }
      destruct (v =? minimum (l ++ [v])) eqn:Em; cbn [stopped seen].
      * split; [|discriminate]. intros _. split; [reflexivity|]. intros e He. rewrite app_length in He; cbn in He.
        destruct (Nat.eq_dec e (length (l ++ [v]))) as [->|Hne]; [rewrite Hlast; reflexivity|].
        rewrite app_length in Hne; cbn in Hne. rewrite Hex by lia. apply Hno. lia.
      * destruct (P <? count_fruitless (l ++ [v]))%nat eqn:Ep.
        -- split; [discriminate|]. intros _. exists (length (l ++ [v])). rewrite firstn_all.
           repeat split; try (rewrite app_length; cbn; lia).
           ++ rewrite Hlast. reflexivity.
           ++ intros e' He'. rewrite app_length in He'; cbn in He'. rewrite Hex by lia. apply Hno. lia.
        -- split; [|discriminate]. intros _. split; [reflexivity|]. intros e He. rewrite app_length in He; cbn in He.
           destruct (Nat.eq_dec e (length (l ++ [v]))) as [->|Hne]; [rewrite Hlast; reflexivity|].
           rewrite app_length in Hne; cbn in Hne. rewrite Hex by lia. apply Hno. lia.
Qed.
Print Assumptions run_spec.
