from common import *
import itertools
key = jr.PRNGKey(3)
# C06: conditional distribution whose value depends on x and cond
def mk(shape, cshape):
    n = int(np.prod(shape)) if shape else 1; m = int(np.prod(cshape)) if cshape else 1
    W = jr.normal(key, (n, m))
    f = lambda c: (W @ c.reshape(-1)).reshape(shape)
    return Transformed(Normal(jnp.zeros(shape), 1.5), AdditiveCondition(f, shape, cshape))
bad=0; tot=0
for shape, cshape in itertools.product([(), (2,), (2,3)], [(), (3,), (1,2)]):
    d = mk(shape, cshape)
    for xb, cb in [((), ()), ((4,), ()), ((), (4,)), ((4,), (4,)), ((4,1), (5,)), ((1,), (3,)), ((2,1,3), (2,1))]:
        try: out_b = np.broadcast_shapes(xb, cb)
        except ValueError: continue
        rng = np.random.default_rng(1)
        x = rng.normal(size=xb+shape); c = rng.normal(size=cb+cshape)
        lp = np.asarray(d.log_prob(x, c)); tot+=1
        if lp.shape != out_b: print("shape", shape, cshape, xb, cb, lp.shape); bad+=1; continue
        xbb = np.broadcast_to(x, out_b+shape); cbb = np.broadcast_to(c, out_b+cshape)
        for I in np.ndindex(*out_b):
            ref = float(d.log_prob(xbb[I], cbb[I]))
            if abs(ref - lp[I]) > 1e-12*max(1,abs(ref)): print("val", shape, cshape, xb, cb, I, ref, lp[I]); bad+=1; break
    # sampling
    for ss, cb in [((), ()), ((3,), ()), ((), (2,)), ((3,), (2,)), ((2,2), (1,3))]:
        rng = np.random.default_rng(2); c = rng.normal(size=cb+cshape)
        k = jr.PRNGKey(9)
        s = np.asarray(d.sample(k, ss, c)); s2, lp2 = d.sample_and_log_prob(k, ss, c); tot+=1
        if s.shape != ss+cb+shape: print("sshape", shape, cshape, ss, cb, s.shape); bad+=1; continue
        if not np.array_equal(s, np.asarray(s2)): print("sample != sample_and_log_prob sample"); bad+=1
        keys = np.asarray(jr.split(k, max(1, int(np.prod(ss+cb))))).reshape(ss+cb+(2,))
        for I in np.ndindex(*(ss+cb)):
            ci = c[I[len(ss):]] if cb else c
            ref = np.asarray(d.sample(jnp.asarray(keys[I]), (), ci))
            # unbatched sample(key) itself splits? check: _get_sample_keys with key_size 1 -> split(key,1)
            ref2 = np.asarray(unwrap(d)._sample(jnp.asarray(keys[I]), jnp.asarray(ci)))
            if not np.allclose(ref2, s[I], rtol=1e-12, atol=1e-12): print("sval", shape, cshape, ss, cb, I); bad+=1; break
        flat = s.reshape(-1, max(1,int(np.prod(shape)))) - (0 if True else 0)
print("C06 cases", tot, "bad", bad)
# note: is dist.sample(key) == _sample(key)?  (unbatched call splits the key once)
d = Normal(jnp.zeros(2)); k = jr.PRNGKey(0)
print("sample(key) vs _sample(key):", np.asarray(d.sample(k)), np.asarray(unwrap(d)._sample(k)), np.asarray(unwrap(d)._sample(jr.split(k,1)[0])))
