import jax, jax.numpy as jnp, equinox as eqx, jax.random as jr, numpy as np
jax.config.update("jax_enable_x64", True)
import equinox._module._module as _m
_orig = _m.is_inexact_array_like
def _patched(e):
    if getattr(e, "__jax_array__", 1) is None:
        return isinstance(e, jax.Array) and jnp.issubdtype(e.dtype, jnp.inexact)
    return _orig(e)
_m.is_inexact_array_like = _patched
import warnings; warnings.filterwarnings("ignore")
from flowjax.bijections import *
from flowjax.distributions import *
from flowjax.flows import *
from flowjax.wrappers import *
from flowjax import wrappers

def perturb(tree, key, scale=1.0):
    """Add noise to every trainable inexact leaf (NonTrainable treated as leaf)."""
    params, static = eqx.partition(tree, eqx.is_inexact_array, is_leaf=lambda l: isinstance(l, wrappers.NonTrainable))
    leaves, td = jax.tree_util.tree_flatten(params)
    keys = jr.split(key, max(1, len(leaves)))
    leaves = [l + scale * jr.normal(k, l.shape, l.dtype) for l, k in zip(leaves, keys)]
    return eqx.combine(jax.tree_util.tree_unflatten(td, leaves), static)
