From Coq Require Import List ZArith Lia Bool.
Import ListNotations.
Open Scope Z_scope.

(* python slice on lists with optional Z bounds (step 1), negative indices wrap, then clamp *)
Definition norm_idx (len i : Z) : Z := let j := if i <? 0 then i + len else i in Z.max 0 (Z.min len j).
Definition pslice {A} (l : list A) (lo hi : option Z) : list A :=
  let len := Z.of_nat (length l) in
  let a := match lo with None => 0 | Some i => norm_idx len i end in
  let b := match hi with None => len | Some i => norm_idx len i end in
  firstn (Z.to_nat (b - a)) (skipn (Z.to_nat a) l).

(* Stack.__init__ as written:  shapes[0][:axis] + (n,) + shapes[0][axis:] *)
Definition stack_shape_code (s : list Z) (n axis : Z) : list Z :=
  pslice s None (Some axis) ++ [n] ++ pslice s (Some axis) None.
(* jnp.stack semantics: new axis at position axis mod (rank+1) *)
Definition stack_shape_spec (s : list Z) (n axis : Z) : list Z :=
  let r := Z.of_nat (length s) in
  let k := Z.to_nat (if axis <? 0 then axis + r + 1 else axis) in
  firstn k s ++ [n] ++ skipn k s.

Example stack_shape_neg_axis_refuted :
  exists s n axis, - (Z.of_nat (length s)) - 1 <= axis <= Z.of_nat (length s) /\
                   stack_shape_code s n axis <> stack_shape_spec s n axis.
Proof. exists [2;3], 2, (-1). split; [cbn; lia|]. vm_compute. discriminate. Qed.

Lemma stack_shape_nonneg_ok s n axis : 0 <= axis <= Z.of_nat (length s) ->
  stack_shape_code s n axis = stack_shape_spec s n axis.
Proof.
  intros H. unfold stack_shape_code, stack_shape_spec, pslice, norm_idx.
  destruct (axis <? 0) eqn:E; [lia|].
  replace (Z.max 0 (Z.min (Z.of_nat (length s)) axis)) with axis by lia.
  rewrite Z.sub_0_r. cbn [Z.to_nat skipn].
  f_equal. f_equal.
  rewrite firstn_all2; [reflexivity|]. rewrite skipn_length. lia.
Qed.

(* nested tensors *)
Inductive tensor (A : Type) := Sc (a : A) | Ar (l : list (tensor A)).
Arguments Sc {A}. Arguments Ar {A}.

Fixpoint map2 {A B C} (f : A -> B -> C) (l1 : list A) (l2 : list B) : list C :=
  match l1, l2 with a :: t1, b :: t2 => f a b :: map2 f t1 t2 | _, _ => [] end.

(* concat two tensors along axis k ; split at i along axis k *)
Fixpoint tconcat {A} (k : nat) (t1 t2 : tensor A) : tensor A :=
  match t1, t2 with
  | Ar l1, Ar l2 => match k with O => Ar (l1 ++ l2) | S k' => Ar (map2 (tconcat k') l1 l2) end
  | _, _ => t1
  end.
Fixpoint tsplit {A} (k i : nat) (t : tensor A) : tensor A * tensor A :=
  match t with
  | Sc a => (t, t)
  | Ar l => match k with
            | O => (Ar (firstn i l), Ar (skipn i l))
            | S k' => let ps := map (tsplit k' i) l in (Ar (map fst ps), Ar (map snd ps))
            end
  end.

(* rank of a tensor along the first spine = enough for the lemma's hypothesis *)
Fixpoint has_rank {A} (r : nat) (t : tensor A) : Prop :=
  match r with
  | O => True
  | S r' => match t with Sc _ => False | Ar l => Forall (has_rank r') l end
  end.

Lemma tensor_ind' {A} (P : tensor A -> Prop) :
  (forall a, P (Sc a)) -> (forall l, Forall P l -> P (Ar l)) -> forall t, P t.
Proof.
  intros Hs Ha. fix IH 1. intros [a|l]; [apply Hs|]. apply Ha.
  induction l as [|t l IHl]; constructor; [apply IH | exact IHl].
Qed.

Lemma map2_fst_snd {A} (f : tensor A -> tensor A -> tensor A) (g : tensor A -> tensor A * tensor A) l :
  Forall (fun t => f (fst (g t)) (snd (g t)) = t) l ->
  map2 f (map fst (map g l)) (map snd (map g l)) = l.
Proof. induction 1 as [|t l Ht _ IH]; cbn; [reflexivity|]. now rewrite Ht, IH. Qed.

Theorem concat_split {A} k i (t : tensor A) : has_rank (S k) t ->
  tconcat k (fst (tsplit k i t)) (snd (tsplit k i t)) = t.
Proof.
  revert t. induction k as [|k IH]; intros t Hr.
  - destruct t as [a|l]; [destruct Hr|]. cbn. now rewrite firstn_skipn.
  - destruct t as [a|l]; [destruct Hr|]. cbn [tsplit fst snd tconcat]. f_equal.
    apply map2_fst_snd. cbn in Hr. revert Hr. apply Forall_impl. intros t Ht. apply IH, Ht.
Qed.
Print Assumptions concat_split.
Print Assumptions stack_shape_neg_axis_refuted.
