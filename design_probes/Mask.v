From Coq Require Import List ZArith Lia Bool.
Import ListNotations.
Open Scope Z_scope.

(* Generic carrier with 0, +, * : the theorem holds for ANY weights and ANY activation *)
Section Masked.
  Variable A : Type.
  Variables (zero : A) (add mul : A -> A -> A).
  Variable act : A -> A.

  Definition dot (w x : list A) : A := fold_right add zero (map (fun p : A * A => mul (fst p) (snd p)) (combine w x)).
  (* where(mask, w, 0) *)
  Definition maskrow (m : list bool) (w : list A) : list A :=
    map (fun p : bool * A => if fst p then snd p else zero) (combine m w).
  (* one masked linear layer: rows of (mask row, weight row, bias) *)
  Definition layer (rows : list (list bool * list A * A)) (x : list A) : list A :=
    map (fun r : list bool * list A * A => add (dot (maskrow (fst (fst r)) (snd (fst r))) x) (snd r)) rows.

  (* rank-based mask row: out rank ro vs in ranks; eq = ge, else gt *)
  Definition mrow (eq : bool) (ro : Z) (rin : list Z) : list bool :=
    map (fun ri => if eq then ri <=? ro else ri <? ro) rin.

  (* x ~_r x' : agree on every position whose rank satisfies P *)
  Definition agree (P : Z -> bool) (ranks : list Z) (x x' : list A) : Prop :=
    length x = length x' /\
    forall i, P (nth i ranks 0) = true -> (i < length ranks)%nat -> nth i x zero = nth i x' zero.

  Hypothesis mul_zero_l : forall a, mul zero a = zero.

  (* masked dot product only sees the unmasked coordinates *)
  Lemma dot_masked_agree (P : Z -> bool) ranks (m : list bool) w x x' :
    length ranks = length x -> length m = length ranks ->
    (forall i, nth i m false = true -> P (nth i ranks 0) = true) ->
    agree P ranks x x' ->
    dot (maskrow m w) x = dot (maskrow m w) x'.
  Proof.
    revert m w x x'. induction ranks as [|r ranks IH]; intros m w x x' Hlx Hlm Hm [Hlen Hag].
    - destruct x; [|discriminate]. destruct x'; [|discriminate]. reflexivity.
    - destruct x as [|a x]; [discriminate|]. destruct x' as [|a' x']; [discriminate|].
      destruct m as [|b m]; [discriminate|]. destruct w as [|v w]; [reflexivity|].
      cbn [maskrow combine map dot fold_right fst snd].
      change (fold_right add zero (map (fun p : A * A => mul (fst p) (snd p)) (combine (maskrow m w) x)))
        with (dot (maskrow m w) x).
      change (fold_right add zero (map (fun p : A * A => mul (fst p) (snd p)) (combine (maskrow m w) x')))
        with (dot (maskrow m w) x').
      f_equal.
      + destruct b.
        * f_equal. apply (Hag 0%nat); [apply (Hm 0%nat); reflexivity | cbn; lia].
        * now rewrite !mul_zero_l.
      + apply (IH m w x x'); cbn in *; try lia.
        * intros i Hi. apply (Hm (S i)). exact Hi.
        * split; [lia|]. intros i HP Hi. apply (Hag (S i)); [exact HP | cbn; lia].
  Qed.
End Masked.
Check dot_masked_agree.
Print Assumptions dot_masked_agree.
