From Coq Require Import Reals Lra Lia.
Open Scope R_scope.

(* sign as the code uses it *)
Definition sgn (x : R) : Z := if Rlt_dec 0 x then 1%Z else if Rlt_dec x 0 then (-1)%Z else 0%Z.

Section Adapt.
  Variable f : R -> R.
  Variable r : R.
  Hypothesis f_root : f r = 0.
  Hypothesis f_incr : forall x y, x < y -> f x < f y.

  Lemma sgn_f_lt x : x < r -> sgn (f x) = (-1)%Z.
  Proof. intros H. pose proof (f_incr _ _ H). unfold sgn. rewrite f_root in *.
    destruct (Rlt_dec 0 (f x)); [lra|]. destruct (Rlt_dec (f x) 0); [reflexivity|lra]. Qed.
  Lemma sgn_f_gt x : r < x -> sgn (f x) = 1%Z.
  Proof. intros H. pose proof (f_incr _ _ H). unfold sgn. rewrite f_root in *.
    destruct (Rlt_dec 0 (f x)); [reflexivity|lra]. Qed.
  Lemma sgn_f_eq : sgn (f r) = 0%Z.
  Proof. unfold sgn. rewrite f_root. destruct (Rlt_dec 0 0); [lra|]. destruct (Rlt_dec 0 0); [lra|reflexivity]. Qed.

  (* the while loop of _adapt_interval_to_include_root, with fuel *)
  Fixpoint adapt (fuel : nat) (lo up e : R) : option (R * R * nat) :=
    if Z.eqb (sgn (f lo)) (sgn (f up)) then
      match fuel with
      | O => None
      | S k =>
          let '(lo', up') := if Z.eqb (sgn (f lo)) 1 then (lo - e, lo) else (up, up + e) in
          match adapt k lo' up' (2 * e) with Some (l, u, n) => Some (l, u, S n) | None => None end
      end
    else Some (lo, up, O).

  (* root above the interval: up < r.  After k steps: lo_k = up_{k-1}, up_k = up + e (2^k - 1) *)
  Lemma adapt_above : forall fuel lo up e, lo < up -> 0 < e -> up < r -> r <= up + e * (2 ^ fuel - 1) ->
    exists l u n, adapt fuel lo up e = Some (l, u, n) /\ l <= r <= u /\ (n <= fuel)%nat.
  Proof.
    induction fuel as [|k IH]; intros lo up e Hlu He Hur Hreach.
    - cbn in Hreach. lra.
    - cbn [adapt]. rewrite (sgn_f_lt lo), (sgn_f_lt up) by lra. cbn [Z.eqb Pos.eqb].
      cbn [Z.eqb]. 
      destruct (Rlt_le_dec (up + e) r) as [Hlt|Hge].
      + (* still below: recurse *)
        destruct (IH up (up + e) (2 * e)) as (l & u & n & Hr & Hb & Hn); try lra.
        { replace (up + e + 2 * e * (2 ^ k - 1)) with (up + e * (2 ^ S k - 1)) by (cbn [pow]; ring). exact Hreach. }
        rewrite Hr. exists l, u, (S n). repeat split; try lra. lia.
      + (* up + e >= r : next iteration stops *)
        destruct k as [|k'].
        * cbn [adapt]. rewrite (sgn_f_lt up) by lra.
          destruct (Rle_lt_or_eq_dec _ _ Hge) as [Hgt|Heq].
          -- rewrite (sgn_f_gt (up + e)) by lra. cbn. exists up, (up + e), 1%nat. repeat split; try lra. lia.
          -- rewrite <- Heq, sgn_f_eq. cbn. exists up, r, 1%nat. repeat split; try lra. lia.
        * cbn [adapt]. rewrite (sgn_f_lt up) by lra.
          destruct (Rle_lt_or_eq_dec _ _ Hge) as [Hgt|Heq].
          -- rewrite (sgn_f_gt (up + e)) by lra. cbn. exists up, (up + e), 1%nat. repeat split; try lra. lia.
          -- rewrite <- Heq, sgn_f_eq. cbn. exists up, r, 1%nat. repeat split; try lra. lia.
  Qed.

  (* enough fuel always exists (Archimedean) *)
  Lemma fuel_exists up e : 0 < e -> exists fuel, r <= up + e * (2 ^ fuel - 1).
  Proof.
    intros He. destruct (Pow_x_infinity 2 ltac:(rewrite Rabs_right; lra) ((r - up) / e + 1)) as [N HN].
    exists N. specialize (HN N (Nat.le_refl _)). rewrite Rabs_right in HN by (apply Rle_ge, pow_le; lra).
    assert ((r - up) / e <= 2 ^ N - 1) by lra.
    apply Rmult_le_compat_l with (r := e) in H; [|lra]. unfold Rdiv in H.
    replace (e * ((r - up) * / e)) with (r - up) in H by (field; lra). lra.
  Qed.

  Theorem adapt_terminates_above lo up : lo < up -> up < r ->
    exists fuel l u n, adapt fuel lo up (up - lo) = Some (l, u, n) /\ l <= r <= u.
  Proof.
    intros Hlu Hur. destruct (fuel_exists up (up - lo)) as [fuel Hf]; [lra|].
    destruct (adapt_above fuel lo up (up - lo)) as (l & u & n & H1 & H2 & _); try lra.
    exists fuel, l, u, n. auto.
  Qed.
End Adapt.
Check adapt_terminates_above.
