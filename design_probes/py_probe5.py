import jax, jax.numpy as jnp, equinox as eqx, jax.random as jr, optax, numpy as np
jax.config.update("jax_enable_x64", True)
from fractions import Fraction as F
from flowjax.bisection_search import _bisection_search
from flowjax.train import fit_to_data, fit_to_variational_target
# --- C10: exact Q simulation vs implementation
def make(slope_l, slope_r, kink, root):
    # piecewise linear increasing, dyadic coefficients
    def f(x): return jnp.where(x < kink, slope_l*(x-root), slope_r*(x-kink) + slope_l*(kink-root))
    def fq(x): return slope_l*(x-root) if x < kink else slope_r*(x-kink)+slope_l*(kink-root)
    return f, fq
def sim(fq, lo, up, tol, max_iter):
    sgn = lambda v: (v>0)-(v<0)
    lo, up = F(lo), F(up); e = up-lo; sl, su = sgn(fq(lo)), sgn(fq(up)); it=0
    while sl == su:
        if sl == 1: lo, up = lo-e, lo
        else: lo, up = up, up+e
        e*=2; sl, su = sgn(fq(lo)), sgn(fq(up)); it+=1
    if su == 0: lo = up
    if sl == 0: up = lo
    n=0
    while (up-lo) > 2*tol and n < max_iter:
        m=(lo+up)/2; s=sgn(fq(m))
        if s==1: up=m
        elif s==-1: lo=m
        else: lo=up=m
        n+=1
    return (lo+up)/2, it, n
ok=0
for (sl,sr,k,r,lo,up,tol) in [(F(1,2),F(3),F(5,4),F(3,8),-10,10,F(1,2**20)),(F(2),F(1,4),F(-3),F(1000001,8),-10,10,F(1,2**24)),(F(1),F(1),F(0),F(-123457,16),-1,1,F(1,2**10)),(F(4),F(1,8),F(7),F(10),-10,10,F(1,2**30))]:
    f,fq = make(float(sl),float(sr),float(k),float(r))
    _,fqq = make(sl,sr,k,r)
    root, ai, it = _bisection_search(f, lower=jnp.asarray(float(lo)), upper=jnp.asarray(float(up)), tol=float(tol), max_iter=200)
    q = sim(fqq, lo, up, tol, 200)
    print(float(root).hex(), int(ai), int(it), "| model", float(q[0]).hex(), q[1], q[2], "exact" if F(float(root))==q[0] else "DIFF")
# --- C15/C16: observe loss args via callback; scripted loss; counting optimiser
seen=[]
def loss_fn(params, static, x, condition=None, key=None):
    jax.debug.callback(lambda x,c,k,p: seen.append((np.asarray(x).tolist(), np.asarray(c).tolist(), np.asarray(k).tolist(), float(p))), x, condition, key, params.p, ordered=True)
    table = jnp.array([5.,3.,4.,1.,2.,6.,7.,8.])
    return table[params.p.astype(int)] + 0*params.p
class M(eqx.Module):
    p: jax.Array
def counting():
    def init(params): return ()
    def update(g, s, params=None): return jax.tree_util.tree_map(lambda x: jnp.ones_like(x), g), s
    return optax.GradientTransformation(init, update)
n=7
x=jnp.arange(n, dtype=float)[:,None]; c = 100+jnp.arange(n, dtype=float)[:,None]
d, losses = fit_to_data(jr.PRNGKey(0), M(jnp.array(0.0)), x, condition=c, loss_fn=loss_fn, max_epochs=3, max_patience=1, batch_size=2, val_prop=0.3, optimizer=counting(), show_progress=False)
jax.effects_barrier()
print("final p", d.p, losses)
for s in seen[:8]: print(s)
