From Coq Require Import List Lia Arith.
Import ListNotations.

Section MAF.
  Variables (V P : Type) (d : V).                 (* values, transformer parameters, default *)
  Variable tau tauinv : P -> V -> V.
  Hypothesis tau_inv : forall p v, tauinv p (tau p v) = v.
  Variable g : list V -> nat -> P.               (* conditioner: ANY function ... *)
  (* ... that is autoregressive: parameters of coordinate i depend on coordinates < i only *)
  Hypothesis g_autoreg : forall x x' i, length x = length x' ->
      (forall j, j < i -> nth j x d = nth j x' d) -> g x i = g x' i.

  Definition upd (l : list V) (i : nat) (v : V) : list V := firstn i l ++ v :: skipn (S i) l.
  Definition fwd (x : list V) : list V := map (fun i => tau (g x i) (nth i x d)) (seq 0 (length x)).
  (* one scan step of inverse(): parameters from the carry, coordinate k replaced *)
  Definition inv_step (c : list V) (k : nat) : list V := upd c k (tauinv (g c k) (nth k c d)).
  Definition inverse (y : list V) : list V := fold_left inv_step (seq 0 (length y)) y.

  Lemma upd_length l i v : i < length l -> length (upd l i v) = length l.
  Proof. intros H. unfold upd. rewrite app_length, firstn_length. cbn [length]. rewrite skipn_length. lia. Qed.
  Lemma nth_upd l i v j : i < length l -> nth j (upd l i v) d = if Nat.eqb j i then v else nth j l d.
  Proof.
    intros H. unfold upd. destruct (Nat.eqb_spec j i) as [->|Hne].
    - rewrite app_nth2; rewrite firstn_length; [|lia]. replace (i - Nat.min i (length l)) with 0 by lia. reflexivity.
    - destruct (Nat.lt_ge_cases j i) as [Hlt|Hge].
      + rewrite app_nth1 by (rewrite firstn_length; lia).
        rewrite <- (firstn_skipn i l) at 2. rewrite app_nth1 by (rewrite firstn_length; lia). reflexivity.
      + rewrite app_nth2; rewrite firstn_length; [|lia].
        replace (j - Nat.min i (length l)) with (S (j - S i)) by lia. cbn [nth].
        rewrite <- (firstn_skipn (S i) l) at 2. rewrite app_nth2; rewrite firstn_length; [|lia].
        replace (j - Nat.min (S i) (length l)) with (j - S i) by lia. reflexivity.
  Qed.
  Lemma fwd_length x : length (fwd x) = length x.
  Proof. unfold fwd. now rewrite map_length, seq_length. Qed.
  Lemma nth_fwd x i : i < length x -> nth i (fwd x) d = tau (g x i) (nth i x d).
  Proof. intros H. unfold fwd.
    rewrite (nth_indep _ d (tau (g x 0) (nth 0 x d))) by (rewrite map_length, seq_length; exact H).
    rewrite (map_nth (fun i => tau (g x i) (nth i x d)) (seq 0 (length x)) 0 i), seq_nth by exact H. reflexivity. Qed.

  (* invariant after k passes: carry = x on [0,k), = y on [k,n) *)
  Definition Inv (x c : list V) (k : nat) : Prop :=
    length c = length x /\ forall j, nth j c d = if Nat.ltb j k then nth j x d else nth j (fwd x) d.

  Lemma step_inv x c k : k < length x -> Inv x c k -> Inv x (inv_step c k) (S k).
  Proof.
    intros Hk [Hlen Hc]. unfold inv_step. split; [rewrite upd_length; lia|].
    intros j. rewrite nth_upd by lia.
    assert (Hg : g c k = g x k).
    { apply g_autoreg; [exact Hlen|]. intros i Hi. rewrite Hc. destruct (Nat.ltb_spec i k); [reflexivity|lia]. }
    destruct (Nat.eqb_spec j k) as [->|Hne].
    - rewrite Hg, Hc. destruct (Nat.ltb_spec k k); [lia|]. rewrite nth_fwd, tau_inv by exact Hk.
      destruct (Nat.ltb_spec k (S k)); [reflexivity|lia].
    - rewrite Hc. destruct (Nat.ltb_spec j k), (Nat.ltb_spec j (S k)); try reflexivity; lia.
  Qed.

  Lemma fold_inv x : forall m k c, k + m = length x -> Inv x c k ->
    Inv x (fold_left inv_step (seq k m) c) (length x).
  Proof.
    induction m as [|m IH]; intros k c Hkm HI; cbn [seq fold_left].
    - now replace (length x) with k by lia.
    - apply IH; [lia|]. apply step_inv; [lia | exact HI].
  Qed.

  Theorem maf_inverse_forward x : inverse (fwd x) = x.
  Proof.
    unfold inverse. rewrite fwd_length.
    destruct (fold_inv x (length x) 0 (fwd x)) as [Hlen Hn]; [lia| |].
    - split; [apply fwd_length|]. intros j. reflexivity.
    - apply (nth_ext _ _ d d); [exact Hlen|]. intros j Hj. rewrite Hn.
      rewrite Hlen in Hj. destruct (Nat.ltb_spec j (length x)); [reflexivity|lia].
  Qed.
End MAF.
Check maf_inverse_forward.
Print Assumptions maf_inverse_forward.
