From Coq Require Import List Lia Arith Bool.
Import ListNotations.

Section B.
  Variable A : Type. Variable d : A.
  Inductive tensor := Sc (a : A) | Ar (l : list tensor).
  Fixpoint rank (t : tensor) : nat := match t with Sc _ => 0 | Ar l => S (match l with [] => 0 | x :: _ => rank x end) end.
  (* indexing with a multi-index; out of range -> default *)
  Fixpoint tget (t : tensor) (I : list nat) : A :=
    match I, t with
    | [], Sc a => a
    | i :: I', Ar l => tget (nth i l (Sc d)) I'
    | _, _ => d
    end.

  (* np.broadcast_to, structurally: missing leading axes are replicated, size-1 axes are replicated *)
  Fixpoint bcast (out : list nat) (t : tensor) : tensor :=
    match out with
    | [] => t
    | n :: out' =>
        if rank t <? length out then Ar (repeat (bcast out' t) n)
        else match t with
             | Ar [x] => Ar (repeat (bcast out' x) n)          (* size-1 axis (also covers n = 1) *)
             | Ar l => Ar (map (bcast out') l)
             | Sc _ => t
             end
    end.

  (* NumPy's index rule: right-align; drop the leading indices; pin size-1 axes to 0 *)
  Fixpoint bproj_aligned (s : list nat) (I : list nat) : list nat :=
    match s, I with
    | n :: s', i :: I' => (if n =? 1 then 0 else i) :: bproj_aligned s' I'
    | _, _ => []
    end.
  Definition bproj (s : list nat) (I : list nat) : list nat := bproj_aligned s (skipn (length I - length s) I).

  (* shape of a well-shaped tensor *)
  Fixpoint has_shape (s : list nat) (t : tensor) : Prop :=
    match s, t with
    | [], Sc _ => True
    | n :: s', Ar l => length l = n /\ Forall (has_shape s') l
    | _, _ => False
    end.
  Lemma has_shape_rank s t : has_shape s t -> (forall n, In n s -> n <> 0) -> rank t = length s.
  Proof.
    revert t. induction s as [|n s IH]; intros t H Hnz; destruct t as [a|l]; cbn in *; try tauto.
    destruct H as [Hl Hf]. f_equal. destruct l as [|x l]; [exfalso; apply (Hnz n); [now left|now rewrite <- Hl]|].
    inversion Hf; subst. apply IH; [assumption|]. intros m Hm. apply Hnz. now right.
  Qed.

  (* compatible: s broadcasts to out (right-aligned, each axis equal or 1) *)
  Fixpoint compat_aligned (s out : list nat) : Prop :=
    match s, out with
    | [], [] => True
    | n :: s', m :: out' => (n = m \/ n = 1) /\ compat_aligned s' out'
    | _, _ => False
    end.

  Lemma nth_repeat {X} (x dflt : X) n i : i < n -> nth i (repeat x n) dflt = x.
  Proof. revert i. induction n; intros i H; [lia|]. destruct i; cbn; [reflexivity|]. apply IHn. lia. Qed.

  (* equal-rank case *)
  Lemma bcast_get_aligned : forall s out t I,
    has_shape s t -> compat_aligned s out -> (forall n, In n s -> n <> 0) ->
    length I = length out -> Forall2 lt I out ->
    tget (bcast out t) I = tget t (bproj_aligned s I).
  Proof.
    induction s as [|n s IH]; intros out t I Hs Hc Hnz HL HI; destruct out as [|m out]; cbn in Hc; try tauto.
    - destruct I; [|discriminate]. reflexivity.
    - destruct Hc as [Hnm Hc]. destruct t as [a|l]; [destruct Hs|]. destruct Hs as [Hl Hf].
      destruct I as [|i I]; [discriminate|]. inversion HI as [|? ? ? ? Hi HI']; subst.
      assert (Hr : rank (Ar l) = S (length s)).
      { apply (has_shape_rank (length l :: s)); [split; [reflexivity|exact Hf]|exact Hnz]. }
      cbn [bcast]. rewrite Hr. cbn [length]. replace (S (length s) <? S (length out)) with false.
      2:{ symmetry. apply Nat.ltb_ge. assert (length s = length out). { clear -Hc. revert out Hc. induction s; destruct out; cbn; try tauto. intros [_ H]. f_equal. now apply IHs. } lia. }
      assert (Hnz' : forall n, In n s -> n <> 0) by (intros k Hk; apply Hnz; now right).
      cbn [bproj_aligned].
      destruct l as [|x l]; [exfalso; apply (Hnz 0); [now left|reflexivity]|].
      destruct l as [|x' l].
      + (* size-1 axis *)
        cbn [length Nat.eqb]. cbn [tget]. rewrite nth_repeat by exact Hi. cbn [nth].
        inversion Hf; subst. apply IH; try assumption. cbn in HL. lia.
      + (* size >= 2: must equal m *)
        cbn [length] in *. destruct Hnm as [Hnm|Hnm]; [|discriminate].
        replace (S (S (length l)) =? 1) with false by reflexivity.
        cbn [tget]. rewrite <- Hnm in Hi.
        change (Sc d) with (Sc d). 
        rewrite (nth_indep _ (Sc d) (bcast out (Sc d))) by (rewrite map_length; cbn; lia).
        rewrite (map_nth (bcast out)). 
        assert (Hin : In (nth i (x :: x' :: l) (Sc d)) (x :: x' :: l)) by (apply nth_In; cbn; lia).
        rewrite Forall_forall in Hf. apply IH; try assumption; [apply Hf, Hin | cbn in HL; lia].
  Qed.
End B.
Check bcast_get_aligned.
Print Assumptions bcast_get_aligned.
