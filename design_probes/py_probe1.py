import jax, jax.numpy as jnp, equinox as eqx
jax.config.update("jax_enable_x64", True)
from flowjax.bijections import *
from flowjax.wrappers import unwrap
import numpy as np
# Probe 1: spline inverse at interval[0] with first derivative > 1
s = RationalQuadraticSpline(knots=4, interval=2)
s = eqx.tree_at(lambda s: s.derivatives.args[0], s, jnp.array([3.,0.5,-1,2,0.3,1.5]))
s = eqx.tree_at(lambda s: s.x_pos.args[0], s, jnp.array([0.3,-0.5,1.0,0.2]))
s = eqx.tree_at(lambda s: s.y_pos.args[0], s, jnp.array([-0.3,0.8,0.1,-0.6]))
u = unwrap(s)
print("x_pos", u.x_pos, "y_pos", u.y_pos, "d", u.derivatives)
for x in [-2.0, 2.0, float(u.x_pos[1]), float(u.x_pos[2]), -2.0000001, 0.0]:
    y = s.transform(x); xi = s.inverse(y)
    print("x",x,"y",float(y),"inv",float(xi), "inv(x as y)", float(s.inverse(x)), "fwd(inv)", float(s.transform(s.inverse(x))))
# Probe 2: Stack axis=-1
try:
    st = Stack([Affine(jnp.ones((2,3))), Affine(jnp.ones((2,3)))], axis=-1)
    print("Stack shape", st.shape)
    print(st.transform(jnp.ones(st.shape)).shape)
except Exception as e: print("Stack err", type(e).__name__, str(e)[:200])
# Probe 3: Vmap in_axes_condition=-1
try:
    ac = AdditiveCondition(lambda c: c.sum(), (), (2,))
    v = Vmap(ac, axis_size=3, in_axes_condition=-1)
    print("Vmap cond_shape", v.cond_shape)
    print(v.transform(jnp.ones(3), jnp.ones(v.cond_shape)))
except Exception as e: print("Vmap err", type(e).__name__, str(e)[:300])
try:
    print(v.transform(jnp.ones(3), jnp.ones((2,3))))
except Exception as e: print("Vmap err2", type(e).__name__, str(e)[:300])
