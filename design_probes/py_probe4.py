import jax, jax.numpy as jnp, equinox as eqx, jax.random as jr, traceback
jax.config.update("jax_enable_x64", True)
import equinox._module._module as _m
_orig = _m.is_inexact_array_like
def _patched(e):
    if getattr(e, "__jax_array__", 1) is None:
        return isinstance(e, jax.Array) and jnp.issubdtype(e.dtype, jnp.inexact)
    return _orig(e)
_m.is_inexact_array_like = _patched
from flowjax.flows import *
from flowjax.distributions import *
from flowjax.bijections import *
from flowjax.train import *
for fac in [block_neural_autoregressive_flow, triangular_spline_flow]:
    try:
        f = fac(jr.PRNGKey(0), base_dist=Normal(jnp.zeros(2)))
        print(fac.__name__, "ok", f.log_prob(jnp.ones(2)), f.sample(jr.PRNGKey(1)))
    except Exception as e:
        traceback.print_exc(limit=-3)
# error_if
for name, th in [("Uniform", lambda: Uniform(1.0, 1.0)), ("StudentT", lambda: StudentT(-1.0)), ("Permute", lambda: Permute(jnp.array([0,0,1]))), ("Mixture", lambda: VmapMixture(eqx.filter_vmap(Normal)(jnp.arange(3.0)), jnp.array([1.,0.,2.]))), ("Affine neg scale", lambda: Affine(0., -1.)), ("Scale0", lambda: Scale(0.0)), ("Exponential", lambda: Exponential(-1.0))]:
    try:
        o = th(); print(name, "constructed", jax.tree_util.tree_leaves(o)[:2])
    except Exception as e:
        print(name, "raised", type(e).__mro__[:3], str(e)[:80].replace("\n"," "))
print("mod0", jnp.arange(5) % 0, (jnp.arange(5) % 1) - 1)
m = MaskedAutoregressive(jr.PRNGKey(0), transformer=Affine(), dim=1, nn_width=4, nn_depth=1)
print("maf dim1", m.transform(jnp.ones(1)))
# variational
import optax
from flowjax.train.variational_fit import fit_to_variational_target
class P(eqx.Module):
    p: jax.Array
def loss(params, static, key):
    return (4.0 ** params.p).sum()
d, losses = fit_to_variational_target(jr.PRNGKey(0), P(jnp.array(0.0)), loss, steps=4, optimizer=optax.sgd(-1.0/ (jnp.log(4.0))), show_progress=False)
print(losses, d.p)
print("uniform outside", Uniform(0.,1.).log_prob(jnp.array([-0.5, 0., 1., 1.5, 0.5])))
print("exp outside", Exponential(2.).log_prob(jnp.array([-0.5, 0., 1.])), LogNormal().log_prob(jnp.array([-1.,0.,1.])))
