import jax, jax.numpy as jnp, equinox as eqx, jax.random as jr, numpy as np
jax.config.update("jax_enable_x64", True)
from flowjax.bijections import *
from flowjax.bijections.bijection import AbstractBijection
from flowjax.bijections.planar import _UnconditionalPlanar
from flowjax.distributions import *
from flowjax.wrappers import *
import flowjax.bijections.block_autoregressive_network as bn
# (a) planar w = 0
p = _UnconditionalPlanar(jnp.zeros(2), jnp.array([0.3,-0.2]), jnp.array(0.1), 0.5)
print("planar w=0:", p.transform(jnp.ones(2)))
# (b) weightnorm zero row
wn = WeightNormalization(jnp.array([[1.,2.],[3.,4.]]))
wn = eqx.tree_at(lambda w: w.weight, wn, jnp.array([[0.,0.],[3.,4.]]))
print("weightnorm zero row:", unwrap(wn))
# (c) Partial duplicate idx
pa = Partial(Affine(jnp.array([1.,2.]), jnp.array([2.,3.])), jnp.array([0,0]), (3,))
x = jnp.array([1.,5.,7.]); y = pa.transform(x); print("partial dup:", y, pa.inverse(y))
# (d) spline interval not containing 0
s = RationalQuadraticSpline(knots=3, interval=(1,3))
d = Transformed(StandardNormal(()), Invert(s))
g = eqx.filter_grad(lambda d: d.log_prob(jnp.asarray(5.0)))(d)
print("spline (1,3) x=5 grads:", [np.asarray(l) for l in jax.tree_util.tree_leaves(g)])
sp = eqx.tree_at(lambda s: s.derivatives.args[0], s, jnp.array([1.5, 0., 0., 0., 1.2]))
u = unwrap(sp); print("d0+dN", u.derivatives[0]+u.derivatives[-1])
# (e) concatenate negative axis
c = Concatenate([Affine(jnp.ones((2,1))), Affine(jnp.ones((2,2)))], axis=-1)
print("concat -1:", c.shape, c.transform(jnp.ones((2,3))).shape)
# (j) wrappers on all subclasses
def subs(c):
    for s in c.__subclasses__():
        yield s; yield from subs(s)
import flowjax.experimental  # noqa
for cls in sorted(set(subs(AbstractBijection)), key=lambda c: c.__name__):
    miss = [m for m in ["transform","transform_and_log_det","inverse","inverse_and_log_det"] if not hasattr(getattr(cls, m), "__wrapped__")]
    if miss: print("UNWRAPPED", cls.__name__, miss, getattr(cls, "__abstractmethods__", None))
print("n classes", len(set(subs(AbstractBijection))))
# scalar condition corner
from flowjax.bijections import AdditiveCondition
dd = Transformed(StandardNormal(()), AdditiveCondition(lambda c: c, (), ()))
print(dd.sample(jr.PRNGKey(0), (2,), condition=jnp.arange(3.0)).shape, dd.log_prob(jnp.zeros((2,1)), jnp.arange(3.0)).shape)
