from common import *
key = jr.PRNGKey(1); k = jr.split(key, 30)
objs = {
 "Affine": (Affine(jnp.array([0.5,-1.0,2.0]), jnp.array([0.5,2.0,1.0])), None),
 "Tri": (TriangularAffine(jnp.arange(3.), jnp.array([[1.,5,5],[2,1.5,5],[-1,0.3,0.7]])), None),
 "Exp": (Exp((3,)), None), "SoftPlus": (SoftPlus((3,)), None), "Tanh": (Tanh((3,)), None), "LeakyTanh": (LeakyTanh(1.5,(3,)), None),
 "RQS": (RationalQuadraticSpline(knots=5, interval=2), None),
 "Planar": (Planar(k[6], dim=3, negative_slope=0.1), None), "PlanarC": (Planar(k[8], dim=3, cond_dim=2, negative_slope=0.3, width_size=4, depth=1), (2,)),
 "Permute": (Permute(jnp.array([2,0,1])), None), "Flip": (Flip((3,)), None), "Identity": (Identity((3,)), None),
 "Coupling": (Coupling(k[10], transformer=Affine(), untransformed_dim=1, dim=3, nn_width=5, nn_depth=1), None),
 "CouplingC": (Coupling(k[12], transformer=RationalQuadraticSpline(knots=3, interval=2), untransformed_dim=1, dim=3, cond_dim=2, nn_width=5, nn_depth=1), (2,)),
 "MAF": (MaskedAutoregressive(k[14], transformer=Affine(), dim=3, nn_width=5, nn_depth=2), None),
 "MAFC": (MaskedAutoregressive(k[16], transformer=RationalQuadraticSpline(knots=3, interval=2), dim=3, cond_dim=2, nn_width=6, nn_depth=1), (2,)),
 "BNAF": (BlockAutoregressiveNetwork(k[18], dim=3, depth=1, block_dim=3), None),
 "Chain": (Chain([Affine(jnp.ones(3)), Exp((3,))]), None),
 "Concat": (Concatenate([Affine(jnp.ones(1)), Exp((2,))]), None),
 "Stack": (Stack([Affine(jnp.float64(1.)), Exp(), Tanh()]), None),
 "Vmap": (Vmap(RationalQuadraticSpline(knots=3, interval=2), axis_size=3), None),
 "Scan": (Scan(eqx.filter_vmap(Affine)(jnp.ones((2,3)))), None),
 "Invert": (Invert(Affine(jnp.ones(3))), None),
 "Partial": (Partial(Exp((2,)), jnp.array([0,2]), (3,)), None),
 "Reshape": (Reshape(Affine(jnp.ones(3)), (3,)), None),
 "EmbedC": (EmbedCondition(Planar(k[8], dim=3, cond_dim=2, negative_slope=0.3, width_size=4, depth=1), lambda c: c[:2]*2, (4,)), (4,)),
 "AddCond": (AdditiveCondition(lambda c: c.sum(), (3,), (2,)), (2,)),
}
wrong = [(), (1,), (2,), (1,3), (3,1), (2,3), (3,3), (1,1,3)]
nbad=0
for name, (b, cs) in objs.items():
    sh = b.shape
    good_c = None if cs is None else jnp.full(cs, 0.3)
    for meth in ["transform","inverse","transform_and_log_det","inverse_and_log_det"]:
        f = getattr(b, meth)
        for w in wrong:
            if w == sh: continue
            try:
                f(jnp.full(w, 0.4), good_c); print("ACCEPTED wrong x", name, meth, w); nbad+=1
            except (ValueError, TypeError): pass
            except NotImplementedError: pass
            except Exception as e: print("other exc", name, meth, w, type(e).__name__)
        if cs is not None:
            for wc in [None, (), (1,), cs+(1,), (1,)+cs, tuple(reversed(cs)) if len(cs)>1 else (cs[0]+1,)]:
                try:
                    f(jnp.full(sh, 0.4), None if wc is None else jnp.full(wc, 0.3)); print("ACCEPTED wrong cond", name, meth, wc); nbad+=1
                except (ValueError, TypeError): pass
                except NotImplementedError: pass
        # good call: shapes
        try:
            out = f(jnp.full(sh, 0.4), good_c)
            if meth.endswith("log_det"):
                assert out[0].shape == sh and out[1].shape == (), (name, meth, out[0].shape, out[1].shape)
            else: assert out.shape == sh, (name, meth, out.shape)
            # C14: jit and vmap
            oj = eqx.filter_jit(f)(jnp.full(sh, 0.4), good_c)
            same = jax.tree_util.tree_all(jax.tree_util.tree_map(lambda a, c: bool(jnp.allclose(a, c, rtol=1e-12, atol=1e-12, equal_nan=True)), out, oj))
            xs = jnp.stack([jnp.full(sh, 0.4), jnp.full(sh, -0.2)])
            ov = jax.vmap(lambda x: f(x, good_c))(xs)
            ol = [f(x, good_c) for x in xs]
            samev = all(jax.tree_util.tree_all(jax.tree_util.tree_map(lambda a, c: bool(jnp.allclose(a[i], c, rtol=1e-9, atol=1e-9, equal_nan=True)), ov, ol[i])) for i in range(2))
            if not (same and samev): print("C14 mismatch", name, meth, same, samev); nbad+=1
        except NotImplementedError: pass
        except AssertionError as e: print("ASSERT", e); nbad+=1
print("done, bad =", nbad)
