from common import *
import itertools
from flowjax.masks import *
from flowjax.bijections.masked_autoregressive import masked_autoregressive_mlp
key = jr.PRNGKey(0)
# ---- C09: MAF dependence for all weights on a grid
bad = 0; n = 0
for dim, cd, width, depth, npar in itertools.product([1,2,3,4], [None,1,2], [1,2,3,5], [0,1,2], [1,2]):
    tr = Affine() if npar == 2 else Loc(jnp.zeros(()))
    m = MaskedAutoregressive(key, transformer=tr, dim=dim, cond_dim=cd, nn_width=width, nn_depth=depth, nn_activation=jnp.tanh)
    # all-positive weights (raw), large
    params, static = eqx.partition(m, eqx.is_inexact_array)
    params = jax.tree_util.tree_map(lambda l: jnp.abs(l) + 0.5, params); m2 = eqx.combine(params, static)
    for mm in (m2, perturb(m, jr.PRNGKey(3), 3.0)):
        x = jnp.linspace(-0.3, 0.4, dim); c = None if cd is None else jnp.linspace(0.2, 0.5, cd)
        um = unwrap(mm)
        f = lambda x, c: um.masked_autoregressive_mlp(x if c is None else jnp.hstack((x, c)))
        J = np.asarray(jax.jacobian(f)(x, c)).reshape(dim, -1, dim)   # [out dim i, param p, in j]
        n += 1
        for i in range(dim):
            for j in range(dim):
                dep = np.abs(J[i, :, j]).max() > 0
                allowed = j < i
                if dep and not allowed: bad += 1; print("FORBIDDEN dep", dim, cd, width, depth, i, j)
                if mm is m2 and allowed and not dep and ((cd is None and width >= dim - 1) or (cd is not None and width >= dim)) :
                    bad += 1; print("MISSING dep", dim, cd, width, depth, npar, i, j)
        if cd is not None:
            Jc = np.asarray(jax.jacobian(f, argnums=1)(x, c))
            if mm is m2 and not (np.abs(Jc) > 0).all() and width >= 1: print("cond dep missing", dim, cd, width, depth); bad += 1
print("C09 MAF configs", n, "bad", bad)
# masks closed forms
for bs, nb in itertools.product([(1,1),(2,1),(1,3),(2,3)], [1,2,3]):
    d = np.asarray(block_diag_mask(bs, nb)); t = np.asarray(block_tril_mask(bs, nb))
    r, cidx = np.indices(d.shape)
    assert (d == (r // bs[0] == cidx // bs[1])).all() and (t == (cidx // bs[1] <= r // bs[0])).all()
print("block masks ok")
# BNAF jacobian lower-tri positive diag for random weights
for dim, cd, depth, bd in itertools.product([1,2,3], [None,2], [0,1,2], [1,3]):
    b = perturb(BlockAutoregressiveNetwork(key, dim=dim, cond_dim=cd, depth=depth, block_dim=bd), jr.PRNGKey(4), 2.0)
    c = None if cd is None else jnp.array([0.3,-2.0])
    J = np.asarray(jax.jacobian(lambda x: b.transform(x, c))(jnp.linspace(-2, 5, dim)))
    if not (np.allclose(np.triu(J, 1), 0) and (np.diag(J) > 0).all()): print("BNAF structure FAIL", dim, cd, depth, bd, J); bad+=1
print("bnaf ok")
