From Coq Require Import Reals Lra.
From Coquelicot Require Import Coquelicot.
Open Scope R_scope.

Definition th (x : R) : R := 1 - 2 / (exp (2*x) + 1).
Definition ath (y : R) : R := / 2 * ln ((1 + y) / (1 - y)).

Lemma th_is_tanh x : th x = tanh x.
Proof.
  unfold th, tanh, sinh, cosh.
  replace (exp (2*x)) with (exp x * exp x) by (rewrite <- exp_plus; f_equal; ring).
  rewrite exp_Ropp. pose proof (exp_pos x) as H.
  field. split; nra.
Qed.

Lemma th_incr x y : x < y -> th x < th y.
Proof.
  intros H. unfold th.
  assert (exp (2*x) < exp (2*y)) by (apply exp_increasing; lra).
  pose proof (exp_pos (2*x)). pose proof (exp_pos (2*y)).
  apply Rplus_lt_compat_l, Ropp_lt_contravar.
  unfold Rdiv. apply Rmult_lt_compat_l; [lra|].
  apply Rinv_lt_contravar; [nra | lra].
Qed.

Lemma th_bounds x : -1 < th x < 1.
Proof.
  unfold th. pose proof (exp_pos (2*x)) as H.
  assert (0 < 2 / (exp (2*x) + 1) < 2).
  { split. apply Rdiv_lt_0_compat; lra.
    apply Rmult_lt_reg_r with (exp (2*x) + 1); [lra|]. field_simplify; lra. }
  lra.
Qed.

Lemma ath_th x : ath (th x) = x.
Proof.
  unfold ath, th. pose proof (exp_pos (2*x)) as H.
  replace ((1 + (1 - 2 / (exp (2*x) + 1))) / (1 - (1 - 2 / (exp (2*x) + 1)))) with (exp (2*x)).
  - rewrite ln_exp. field.
  - field. lra.
Qed.

Lemma th_ath y : -1 < y < 1 -> th (ath y) = y.
Proof.
  intros Hy. unfold ath, th.
  replace (2 * (/ 2 * ln ((1 + y) / (1 - y)))) with (ln ((1 + y) / (1 - y))) by field.
  rewrite exp_ln. field. lra. apply Rdiv_lt_0_compat; lra.
Qed.

(* leaky tanh, as the code computes it *)
Section Leaky.
  Variable m : R. Hypothesis m_pos : 0 < m.
  Definition g : R := 1 - th m * th m.         (* = exp(_tanh_log_grad m), separate lemma *)
  Definition ic : R := th m - g * m.
  Definition sgn (x : R) : R := if Rlt_dec 0 x then 1 else if Rlt_dec x 0 then -1 else 0.
  Definition fwd (x : R) : R := if Rle_dec m (Rabs x) then g * x + sgn x * ic else th x.
  Definition inv (y : R) : R := if Rle_dec (th m) (Rabs y) then (y - sgn y * ic) / g else ath y.

  Lemma g_pos : 0 < g. Proof. unfold g. pose proof (th_bounds m). nra. Qed.
  Lemma thm_pos : 0 < th m.
  Proof. replace 0 with (th 0). apply th_incr, m_pos. unfold th. rewrite Rmult_0_r, exp_0. lra. Qed.
  Lemma th_odd x : th (-x) = - th x.
  Proof. unfold th. replace (2 * - x) with (- (2*x)) by ring. rewrite exp_Ropp.
    pose proof (exp_pos (2*x)). field. split; lra. Qed.

  Theorem inv_fwd x : inv (fwd x) = x.
  Proof.
    pose proof g_pos as Hg. pose proof thm_pos as Ht.
    unfold fwd. destruct (Rle_dec m (Rabs x)) as [Hl|Hl].
    - (* linear branch *)
      unfold Rabs in Hl. destruct (Rcase_abs x) as [Hx|Hx].
      + (* x <= -m *)
        assert (Sx : sgn x = -1) by (unfold sgn; destruct (Rlt_dec 0 x); [lra|]; destruct (Rlt_dec x 0); lra).
        rewrite Sx. set (y := g * x + -1 * ic).
        assert (Hy : y <= - th m) by (unfold y, ic; nra).
        unfold inv. destruct (Rle_dec (th m) (Rabs y)) as [H1|H1].
        * assert (Sy : sgn y = -1) by (unfold sgn; destruct (Rlt_dec 0 y); [lra|]; destruct (Rlt_dec y 0); lra).
          rewrite Sy. unfold y. field. lra.
        * exfalso. apply H1. unfold Rabs. destruct (Rcase_abs y); lra.
      + assert (Sx : sgn x = 1) by (unfold sgn; destruct (Rlt_dec 0 x); lra).
        rewrite Sx. set (y := g * x + 1 * ic).
        assert (Hy : th m <= y) by (unfold y, ic; nra).
        unfold inv. destruct (Rle_dec (th m) (Rabs y)) as [H1|H1].
        * assert (Sy : sgn y = 1) by (unfold sgn; destruct (Rlt_dec 0 y); lra).
          rewrite Sy. unfold y. field. lra.
        * exfalso. apply H1. unfold Rabs. destruct (Rcase_abs y); lra.
    - (* tanh branch: |x| < m, so |th x| < th m *)
      assert (Hx : - m < x < m) by (unfold Rabs in Hl; destruct (Rcase_abs x); lra).
      assert (Hb : - th m < th x < th m).
      { split; [rewrite <- th_odd|]; apply th_incr; lra. }
      unfold inv. destruct (Rle_dec (th m) (Rabs (th x))) as [H1|H1].
      + exfalso. unfold Rabs in H1. destruct (Rcase_abs (th x)); lra.
      + apply ath_th.
  Qed.
End Leaky.
Check inv_fwd.
