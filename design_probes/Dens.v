From Coq Require Import Reals List Lra.
Import ListNotations.
Open Scope R_scope.

(* ---- C05: Normal(loc, scale) as the code builds it = textbook log-density *)
Definition std_normal_logpdf (z : R) : R := - (z * z) / 2 - ln (sqrt (2 * PI)).    (* jstats.norm.logpdf *)
Definition affine_inv (loc scale x : R) : R := (x - loc) / scale.
Definition affine_inv_ldj (scale : R) : R := - ln (Rabs scale).
Definition normal_logp (loc scale x : R) : R := std_normal_logpdf (affine_inv loc scale x) + affine_inv_ldj scale.
Definition textbook_normal_pdf (mu sigma x : R) : R :=
  exp (- ((x - mu) * (x - mu)) / (2 * (sigma * sigma))) / (sigma * sqrt (2 * PI)).

Theorem normal_logpdf_spec mu sigma x : 0 < sigma -> normal_logp mu sigma x = ln (textbook_normal_pdf mu sigma x).
Proof.
  intros Hs. unfold normal_logp, std_normal_logpdf, affine_inv, affine_inv_ldj, textbook_normal_pdf.
  assert (H2pi : 0 < sqrt (2 * PI)) by (apply sqrt_lt_R0; pose proof PI_RGT_0; lra).
  rewrite Rabs_right by lra.
  unfold Rdiv at 4. rewrite ln_mult; [| apply exp_pos | apply Rinv_0_lt_compat; nra].
  rewrite ln_exp, ln_Rinv by nra. rewrite ln_mult by assumption. field. lra.
Qed.

(* ---- C17 / C05: logsumexp facts for lists of any length *)
Fixpoint rsum (l : list R) : R := match l with [] => 0 | x :: t => x + rsum t end.
Definition logsumexp (l : list R) : R := ln (rsum (map exp l)).
Lemma rsum_exp_nonneg l : 0 <= rsum (map exp l).
Proof. induction l as [|a l IH]; cbn; [lra|]. pose proof (exp_pos a). lra. Qed.

Theorem contrastive_nonneg (cs : list R) (p : R) : 0 <= - (p - logsumexp (cs ++ [p])).
Proof.
  unfold logsumexp.
  assert (H : exp p <= rsum (map exp (cs ++ [p]))).
  { induction cs as [|a l IH]; cbn; [lra|]. pose proof (exp_pos a). lra. }
  assert (p <= ln (rsum (map exp (cs ++ [p])))).
  { rewrite <- (ln_exp p) at 1. destruct H as [H|H]; [left; apply ln_increasing; [apply exp_pos|exact H] | right; now rewrite H]. }
  lra.
Qed.

(* mixture weights: invariance to rescaling, any number of components *)
Definition log_softmax (l : list R) : list R := map (fun x => x - logsumexp l) l.
Fixpoint add2 (a b : list R) : list R := match a, b with x :: s, y :: t => (x + y) :: add2 s t | _, _ => [] end.
Definition mixture_logp (lps raw : list R) : R := logsumexp (add2 lps (log_softmax raw)).
Lemma rsum_scale c l : rsum (map (fun x => c * x) l) = c * rsum l.
Proof. induction l; cbn; [ring|]. rewrite IHl. ring. Qed.
Theorem mixture_scale_invariant (lps ws : list R) (k : R) : 0 < k -> ws <> [] -> Forall (fun w => 0 < w) ws ->
  mixture_logp lps (map (fun w => ln (k * w)) ws) = mixture_logp lps (map ln ws).
Proof.
  intros Hk Hne Hpos. unfold mixture_logp. f_equal.
  assert (Hs : rsum (map exp (map ln ws)) = rsum ws).
  { clear Hne. induction Hpos; cbn; [reflexivity|]. rewrite exp_ln, IHHpos by assumption. reflexivity. }
  assert (Hsk : rsum (map exp (map (fun w => ln (k * w)) ws)) = k * rsum ws).
  { rewrite <- rsum_scale. clear Hne Hs. induction Hpos; cbn; [reflexivity|].
    rewrite exp_ln by (apply Rmult_lt_0_compat; assumption). now rewrite IHHpos. }
  assert (Hsum : 0 < rsum ws).
  { destruct ws as [|w t]; [congruence|]. inversion Hpos; subst. cbn.
    assert (0 <= rsum t). { clear -H2. induction H2; cbn; lra. } lra. }
  unfold log_softmax, logsumexp. rewrite Hs, Hsk. rewrite ln_mult by assumption.
  rewrite !map_map. clear Hs Hsk Hne. set (S := rsum ws) in *. clearbody S. revert lps.
  induction Hpos as [|w t Hw Ht IH]; intros lps; destruct lps as [|q lps]; cbn; try reflexivity.
  f_equal.
  - rewrite ln_mult by assumption. ring.
  - apply IH.
Qed.
Print Assumptions mixture_scale_invariant.
