import jax, jax.numpy as jnp, numpy as np, subprocess
jax.config.update("jax_enable_x64", True)
rng = np.random.default_rng(0)
N = 20000
fns = [("exp", jnp.exp, lambda: rng.uniform(-50, 50, N)), ("log", jnp.log, lambda: np.exp(rng.uniform(-50, 50, N))),
       ("tanh", jnp.tanh, lambda: rng.uniform(-12, 12, N)), ("log1p", jnp.log1p, lambda: np.concatenate([rng.uniform(-0.99, 5, N//2), rng.uniform(-1e-8, 1e-8, N//2)])),
       ("expm1", jnp.expm1, lambda: np.concatenate([rng.uniform(-30, 30, N//2), rng.uniform(-1e-8, 1e-8, N//2)])),
       ("atanh", jnp.arctanh, lambda: np.concatenate([rng.uniform(-0.999999, 0.999999, N//2), rng.uniform(-1e-8,1e-8,N//2)])),
       ("softplus", jax.nn.softplus, lambda: rng.uniform(-50, 50, N)), ("sqrt", jnp.sqrt, lambda: np.exp(rng.uniform(-50, 50, N)))]
lines=[]; xs=[]
for i,(n,f,g) in enumerate(fns):
    x = g(); xs.append(x); lines += [f"{i} {float(v).hex()}" for v in x]
out = subprocess.run(["/verif/design_probes/prim"], input="\n".join(lines)+"\n", capture_output=True, text=True).stdout.split()
k=0
for i,(n,f,g) in enumerate(fns):
    x = xs[i]; y = np.asarray(f(jnp.asarray(x))); m = np.array([float.fromhex(o) for o in out[k:k+len(x)]]); k+=len(x)
    rel = np.abs(y-m)/np.maximum(np.abs(m), 1e-300)
    print(f"{n:9s} max rel diff {rel.max():.3e}  exact {np.mean(y==m):.3f}")
