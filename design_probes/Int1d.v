From Coq Require Import Reals Lra.
From Coquelicot Require Import Coquelicot.
Open Scope R_scope.

Section COV.
  (* base: CDF P with density p; S = inverse of the flow's forward map, S' its derivative *)
  Variables (P p S S' : R -> R).
  Hypothesis P_deriv : forall z, is_derive P z (p z).
  Hypothesis p_cont : forall z, continuous p z.
  Hypothesis P_minf : filterlim P (Rbar_locally m_infty) (locally 0).
  Hypothesis P_pinf : filterlim P (Rbar_locally p_infty) (locally 1).
  Hypothesis S_deriv : forall x, is_derive S x (S' x).
  Hypothesis S'_cont : forall x, continuous S' x.
  Hypothesis S_minf : filterlim S (Rbar_locally m_infty) (Rbar_locally m_infty).
  Hypothesis S_pinf : filterlim S (Rbar_locally p_infty) (Rbar_locally p_infty).

  Definition q (x : R) : R := p (S x) * S' x.

  Lemma PS_deriv x : is_derive (fun x => P (S x)) x (q x).
  Proof.
    unfold q. 
    replace (p (S x) * S' x) with (S' x * p (S x)) by ring.
    apply (is_derive_comp P S x (p (S x)) (S' x)); [apply P_deriv | apply S_deriv].
  Qed.

  Theorem flow_density_integrates_to_one :
    is_RInt_gen q (Rbar_locally m_infty) (Rbar_locally p_infty) 1.
  Proof.
    replace 1 with (1 - 0) by ring.
    apply (is_RInt_gen_ext (Derive (fun x => P (S x)))).
    - apply filter_forall. intros [a b] x _. apply is_derive_unique, PS_deriv.
    - apply is_RInt_gen_Derive.
      + apply filter_forall. intros [a b] x _. eexists; apply PS_deriv.
      + apply filter_forall. intros [a b] x _.
        apply continuous_ext with (f := q).
        * intros t. symmetry. apply is_derive_unique, PS_deriv.
        * unfold q. apply (continuous_mult (fun x => p (S x)) S').
          -- apply continuous_comp. 
             ++ apply (ex_derive_continuous S). eexists; apply S_deriv.
             ++ apply p_cont.
          -- apply S'_cont.
      + eapply filterlim_comp; [apply S_minf | apply P_minf].
      + eapply filterlim_comp; [apply S_pinf | apply P_pinf].
  Qed.
End COV.
Check flow_density_integrates_to_one.
Print Assumptions flow_density_integrates_to_one.
