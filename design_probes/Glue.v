From Coq Require Import Reals Lra.
From Coquelicot Require Import Coquelicot.
Open Scope R_scope.

(* gluing two differentiable pieces that agree in value and slope at the junction *)
Lemma is_derive_glue (f1 f2 : R -> R) (a l : R) :
  f1 a = f2 a -> is_derive f1 a l -> is_derive f2 a l ->
  is_derive (fun x => if Rle_dec x a then f1 x else f2 x) a l.
Proof.
  intros Hv H1 H2. apply is_derive_Reals in H1. apply is_derive_Reals in H2. apply is_derive_Reals.
  intros eps Heps. destruct (H1 eps Heps) as [d1 Hd1]. destruct (H2 eps Heps) as [d2 Hd2].
  assert (Hm : 0 < Rmin d1 d2) by (apply Rmin_pos; [apply d1 | apply d2]).
  exists (mkposreal _ Hm). intros h Hh Hlt. cbn in Hlt.
  destruct (Rle_dec a a) as [_|Hn]; [|exfalso; apply Hn; lra].
  destruct (Rle_dec (a + h) a).
  - apply Hd1; [exact Hh|]. eapply Rlt_le_trans; [exact Hlt | apply Rmin_l].
  - rewrite Hv. apply Hd2; [exact Hh|]. eapply Rlt_le_trans; [exact Hlt | apply Rmin_r].
Qed.

(* away from the junction the piecewise function inherits the derivative of its piece *)
Lemma is_derive_left (f1 f2 : R -> R) (a x l : R) :
  x < a -> is_derive f1 x l -> is_derive (fun x => if Rle_dec x a then f1 x else f2 x) x l.
Proof.
  intros Hx H1. apply (is_derive_ext_loc f1); [|exact H1].
  exists (mkposreal (a - x) ltac:(lra)). intros y Hy.
  unfold ball in Hy; cbn in Hy; unfold AbsRing_ball, abs, minus, plus, opp in Hy; cbn in Hy.
  apply Rabs_lt_between in Hy. destruct (Rle_dec y a); [reflexivity | lra].
Qed.
Lemma is_derive_right (f1 f2 : R -> R) (a x l : R) :
  a < x -> is_derive f2 x l -> is_derive (fun x => if Rle_dec x a then f1 x else f2 x) x l.
Proof.
  intros Hx H2. apply (is_derive_ext_loc f2); [|exact H2].
  exists (mkposreal (x - a) ltac:(lra)). intros y Hy.
  unfold ball in Hy; cbn in Hy; unfold AbsRing_ball, abs, minus, plus, opp in Hy; cbn in Hy.
  apply Rabs_lt_between in Hy. destruct (Rle_dec y a); [lra | reflexivity].
Qed.
Check is_derive_glue.
