let softplus x = (if x > 0. then x else 0.) +. log1p (exp (-. abs_float x))
let atanh x = 0.5 *. log1p (2. *. x /. (1. -. x))
let fs = [| exp; log; tanh; log1p; expm1; atanh; softplus; sqrt |]
let () =
  try while true do
    let line = input_line stdin in
    match String.split_on_char ' ' line with
    | [i; x] -> Printf.printf "%h\n" (fs.(int_of_string i) (float_of_string x))
    | _ -> ()
  done with End_of_file -> ()
