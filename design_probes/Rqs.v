From Coq Require Import Reals Lra Psatz.
Open Scope R_scope.

Section Bin.
  Variables xk xk1 yk yk1 dk dk1 : R.
  Hypothesis Hx : xk < xk1. Hypothesis Hy : yk < yk1.
  Hypothesis Hdk : 0 < dk. Hypothesis Hdk1 : 0 < dk1.

  Definition w := xk1 - xk.
  Definition Dy := yk1 - yk.
  Definition s := Dy / w.
  Definition E := dk1 + dk - 2 * s.

  (* forward, as in transform() *)
  Definition xi (x : R) := (x - xk) / w.
  Definition den (t : R) := s + E * t * (1 - t).
  Definition fwd (x : R) := yk + Dy * (s * (xi x * xi x) + dk * xi x * (1 - xi x)) / den (xi x).

  (* inverse, as in inverse() *)
  Definition ca (y : R) := Dy * (s - dk) + (y - yk) * E.
  Definition cb (y : R) := Dy * dk - (y - yk) * E.
  Definition cc (y : R) := - s * (y - yk).
  Definition inv (y : R) :=
    (2 * cc y) / (- cb y - sqrt ((cb y * cb y) - 4 * ca y * cc y)) * w + xk.

  Lemma w_pos : 0 < w. Proof. unfold w; lra. Qed.
  Lemma Dy_pos : 0 < Dy. Proof. unfold Dy; lra. Qed.
  Lemma s_pos : 0 < s. Proof. unfold s. apply Rdiv_lt_0_compat; [apply Dy_pos | apply w_pos]. Qed.

  Lemma den_pos t : 0 <= t <= 1 -> 0 < den t.
  Proof.
    intros Ht. unfold den, E. pose proof s_pos as Hs.
    replace (s + (dk1 + dk - 2 * s) * t * (1 - t)) with (s * (1 - 2*(t*(1-t))) + (dk1+dk) * (t*(1-t))) by ring.
    set (u := t*(1-t)). assert (0 <= u) by (unfold u; nra). assert (u <= /4) by (unfold u; pose proof (Rle_0_sqr (t - /2)) as Hq; unfold Rsqr in Hq; nra).
    assert (0 < s * (1 - 2*u)) by (apply Rmult_lt_0_compat; lra).
    assert (0 <= (dk1+dk) * u) by (apply Rmult_le_pos; lra). lra.
  Qed.

  Definition Q (t : R) := dk1 * (t*t) + 2 * s * t * (1 - t) + dk * ((1 - t)*(1 - t)).
  Lemma Q_pos t : 0 <= t <= 1 -> 0 < Q t.
  Proof. intros Ht. unfold Q. pose proof s_pos.
    assert (0 <= dk1 * (t*t)) by (apply Rmult_le_pos; nra).
    assert (0 <= dk * ((1-t)*(1-t))) by (apply Rmult_le_pos; nra).
    assert (0 <= t*(1-t)) by nra. assert (0 <= 2*s*t*(1-t)) by (replace (2*s*t*(1-t)) with (2 * (s * (t*(1-t)))) by ring; apply Rmult_le_pos; [lra|apply Rmult_le_pos; lra]).
    destruct (Rle_lt_dec t (/2)).
    - assert (/4 <= (1-t)*(1-t)) by nra. assert (0 < dk * ((1-t)*(1-t))) by (apply Rmult_lt_0_compat; lra). lra.
    - assert (/4 < t*t) by nra. assert (0 < dk1 * (t*t)) by (apply Rmult_lt_0_compat; lra). lra.
  Qed.

  Section AtPoint.
    Variable t : R. Hypothesis Ht : 0 <= t <= 1.
    Let th := Dy * (s * (t*t) + dk * t * (1 - t)) / den t.   (* y - yk *)
    Let a := Dy * (s - dk) + th * E.
    Let b := Dy * dk - th * E.
    Let c := - s * th.

    Lemma quad_zero : a * (t*t) + b * t + c = 0.
    Proof. pose proof (den_pos t Ht) as H. subst a b c th. unfold den, E in *. field. exact (Rgt_not_eq _ _ H). Qed.

    Lemma slope_id : (2 * a * t + b) * den t = Dy * s * Q t.
    Proof. pose proof (den_pos t Ht) as H. subst a b th. unfold Q, den, E in *. field. exact (Rgt_not_eq _ _ H). Qed.

    Lemma slope_pos : 0 < 2 * a * t + b.
    Proof.
      pose proof (den_pos t Ht) as Hd. pose proof (Q_pos t Ht). pose proof Dy_pos. pose proof s_pos.
      assert (0 < Dy * s * Q t) by (apply Rmult_lt_0_compat; [apply Rmult_lt_0_compat|]; assumption).
      rewrite <- slope_id in H2. nra.
    Qed.

    Lemma disc_id : (b*b) - 4 * a * c = ((2 * a * t + b)*(2 * a * t + b)).
    Proof. pose proof quad_zero. nra. Qed.

    Lemma mid_id : (a * t + b) * den t = Dy * s * (dk * (1 - t) + s * t).
    Proof. pose proof (den_pos t Ht) as H. subst a b th. unfold den, E in *. field. exact (Rgt_not_eq _ _ H). Qed.

    Lemma mid_pos : 0 < a * t + b.
    Proof.
      pose proof (den_pos t Ht) as Hd. pose proof Dy_pos. pose proof s_pos.
      assert (0 < dk * (1 - t) + s * t) by nra.
      assert (0 < Dy * s * (dk * (1 - t) + s * t)) by (apply Rmult_lt_0_compat; [apply Rmult_lt_0_compat|]; assumption).
      rewrite <- mid_id in H2. nra.
    Qed.

    Theorem root_is_t : (2 * c) / (- b - sqrt ((b*b) - 4 * a * c)) = t.
    Proof.
      rewrite disc_id. pose proof slope_pos as Hs. pose proof mid_pos as Hm.
      replace (((2 * a * t + b)*(2 * a * t + b))) with (Rsqr (2 * a * t + b)) by (unfold Rsqr; ring).
      rewrite sqrt_Rsqr by lra.
      pose proof quad_zero as Hq.
      replace (2 * c) with (- 2 * t * (a * t + b)) by nra.
      field. lra.
    Qed.
  End AtPoint.

  (* the statement in terms of the code's functions *)
  Theorem inv_fwd_in_bin x : xk <= x <= xk1 -> inv (fwd x) = x.
  Proof.
    intros Hxr. pose proof w_pos as Hw.
    assert (Ht : 0 <= xi x <= 1).
    { unfold xi. split; [apply Rmult_le_pos; [lra| left; apply Rinv_0_lt_compat, Hw]|].
      apply Rmult_le_reg_r with w; [exact Hw|]. unfold Rdiv. rewrite Rmult_assoc, Rinv_l by lra. unfold w in *. lra. }
    unfold inv, ca, cb, cc.
    replace (fwd x - yk) with (Dy * (s * (xi x * xi x) + dk * xi x * (1 - xi x)) / den (xi x)) by (unfold fwd; ring).
    rewrite (root_is_t (xi x) Ht). unfold xi. field. lra.
  Qed.
End Bin.
Check inv_fwd_in_bin.
