From Coq Require Import Reals List Lra.
From Coquelicot Require Import Coquelicot.
Import ListNotations.
Open Scope R_scope.

Record NumOps (A : Type) := {
  n_add : A -> A -> A; n_mul : A -> A -> A; n_sub : A -> A -> A; n_div : A -> A -> A;
  n_exp : A -> A; n_log : A -> A; n_leb : A -> A -> bool; n_of_Z : Z -> A }.
Arguments n_add {A}. Arguments n_mul {A}. Arguments n_sub {A}. Arguments n_div {A}.
Arguments n_exp {A}. Arguments n_log {A}. Arguments n_leb {A}. Arguments n_of_Z {A}.

Section Model.
  Context {A : Type} (O : NumOps A).
  Definition softplus (x : A) : A := n_log O (n_add O (n_of_Z O 1) (n_exp O x)).
  Definition affine_fwd (loc scale x : A) : A := n_add O (n_mul O x scale) loc.
  Definition affine_inv (loc scale y : A) : A := n_div O (n_sub O y loc) scale.
  Definition vec_affine (loc scale : list A) (x : list A) : list A :=
    map (fun '(l, s, x) => affine_fwd l s x) (combine (combine loc scale) x).
End Model.

Definition Rleb (a b : R) : bool := if Rle_dec a b then true else false.
Definition ROps : NumOps R := {| n_add := Rplus; n_mul := Rmult; n_sub := Rminus; n_div := Rdiv;
  n_exp := exp; n_log := ln; n_leb := Rleb; n_of_Z := IZR |}.

Lemma affine_roundtrip loc scale x : scale <> 0 -> affine_inv ROps loc scale (affine_fwd ROps loc scale x) = x.
Proof. intros H. unfold affine_inv, affine_fwd; simpl. field. exact H. Qed.

Lemma softplus_deriv x : is_derive (softplus ROps) x (exp x / (1 + exp x)).
Proof.
  unfold softplus; simpl.
  auto_derive.
  - pose proof (exp_pos x). lra.
  - pose proof (exp_pos x). field. lra.
Qed.
Print Assumptions softplus_deriv.

Require Extraction.
Require Import ExtrOcamlBasic.
Extraction "gen.ml" vec_affine softplus affine_inv.
