from common import *
import itertools, traceback
rng = np.random.default_rng(0)
# ---------- reference interpreter over children's own methods
def ref(b, meth, x, c):
    inv = meth.startswith("inverse"); ld = meth.endswith("log_det")
    def call(ch, x, c=c, m=meth):
        out = getattr(ch, m)(x, c if ch.cond_shape is not None else None)
        return out if ld else (out, jnp.zeros(()))
    if isinstance(b, Chain):
        tot = 0.0
        for ch in (reversed(b.bijections) if inv else b.bijections):
            x, l = call(ch, x); tot = tot + l
        return x, tot
    if isinstance(b, Concatenate):
        ax = b.axis % len(b.shape); sizes = [ch.shape[ax] for ch in b.bijections]
        parts = np.split(np.asarray(x), np.cumsum(sizes)[:-1], axis=ax)
        outs = [call(ch, jnp.asarray(p)) for ch, p in zip(b.bijections, parts)]
        return jnp.concatenate([o[0] for o in outs], axis=ax), sum(o[1] for o in outs)
    if isinstance(b, Stack):
        ax = b.axis % (len(b.bijections[0].shape) + 1)
        parts = [np.take(np.asarray(x), i, axis=ax) for i in range(len(b.bijections))]
        outs = [call(ch, jnp.asarray(p)) for ch, p in zip(b.bijections, parts)]
        return jnp.stack([o[0] for o in outs], axis=ax), sum(o[1] for o in outs)
    if isinstance(b, Invert):
        m2 = {"transform":"inverse","inverse":"transform","transform_and_log_det":"inverse_and_log_det","inverse_and_log_det":"transform_and_log_det"}[meth]
        return call(b.bijection, x, m=m2)
    if isinstance(b, Partial):
        y, l = call(b.bijection, x[b.idxs]); return x.at[b.idxs].set(y), l
    if isinstance(b, Reshape):
        y, l = call(b.bijection, x.reshape(b.bijection.shape)); return y.reshape(b.shape), l
    raise TypeError(type(b))
def leaf(shape):
    k = rng.integers(0, 5)
    if k == 0: return Affine(jnp.asarray(rng.integers(-3, 4, shape), float), jnp.asarray(2.0 ** rng.integers(-2, 3, shape)))
    if k == 1: return Loc(jnp.asarray(rng.integers(-3, 4, shape), float))
    if k == 2: return Flip(shape)
    if k == 3 and len(shape) > 0 and np.prod(shape) > 0: return Permute(jnp.asarray(rng.permutation(int(np.prod(shape))).reshape(shape)))
    if k == 4: return AdditiveCondition(lambda c: c.sum(), shape, (2,))
    return Identity(shape)
def gen(shape, depth):
    if depth == 0 or rng.random() < 0.25: return leaf(shape)
    k = rng.integers(0, 6)
    if k == 0: return Chain([gen(shape, depth-1) for _ in range(rng.integers(1, 4))])
    if k == 1 and len(shape) > 0:
        ax = int(rng.integers(-len(shape), len(shape))); n = shape[ax]
        if n >= 2:
            cut = sorted(rng.choice(np.arange(1, n), size=min(n-1, rng.integers(1, 3)), replace=False)); sizes = np.diff([0, *cut, n])
            return Concatenate([gen(tuple(s if i == ax % len(shape) else d for i, d in enumerate(shape)), depth-1) for s in sizes], axis=ax)
    if k == 2 and len(shape) > 0:
        r = len(shape); ax = int(rng.integers(-r, r))  # axis for Stack refers to OUTPUT rank r; valid range -(r)..r-1 of output == inner rank+1
        axn = ax % r; inner = shape[:axn] + shape[axn+1:]
        return Stack([gen(inner, depth-1) for _ in range(shape[axn])], axis=ax)
    if k == 3: return Invert(gen(shape, depth-1))
    if k == 4 and len(shape) == 1 and shape[0] >= 2:
        m = rng.integers(1, shape[0]); kind = rng.integers(0, 3)
        if kind == 0: idx = slice(0, int(m)); sub = (int(m),)
        elif kind == 1: idx = jnp.asarray(sorted(rng.choice(shape[0], int(m), replace=False))); sub = (int(m),)
        else:
            mask = np.zeros(shape[0], bool); mask[rng.choice(shape[0], int(m), replace=False)] = True; idx = jnp.asarray(mask); sub = (int(m),)
        return Partial(gen(sub, depth-1), idx, shape)
    if k == 5 and np.prod(shape) > 0:
        n = int(np.prod(shape)); return Reshape(gen((n,), depth-1), shape)
    return leaf(shape)
nbad = 0; ntree = 0; kinds = {}
for t in range(400):
    shape = [(), (3,), (2,3), (4,), (2,1,2)][rng.integers(0, 5)]
    try:
        b = gen(shape, 3)
    except Exception as e:
        nbad += 1; print("CTOR FAIL", shape, type(e).__name__, str(e)[:120]); continue
    ntree += 1; kinds[type(b).__name__] = kinds.get(type(b).__name__, 0) + 1
    if b.shape != shape: print("SHAPE", type(b).__name__, b.shape, shape); nbad += 1; continue
    x = jnp.asarray(rng.integers(-4, 5, shape), float); c = None if b.cond_shape is None else jnp.asarray([1.0, 2.0])
    if isinstance(b, (Chain, Concatenate, Stack, Invert, Partial, Reshape)):
        for meth in ["transform", "inverse", "transform_and_log_det", "inverse_and_log_det"]:
            try:
                out = getattr(b, meth)(x, c); y, l = out if meth.endswith("log_det") else (out, None)
                ry, rl = ref(b, meth, x, c)
                if not np.array_equal(np.asarray(y), np.asarray(ry)) or (l is not None and abs(float(l) - float(rl)) > 1e-12):
                    nbad += 1; print("MISMATCH", type(b).__name__, meth, shape); break
            except Exception as e:
                nbad += 1; print("CALL FAIL", type(b).__name__, meth, shape, type(e).__name__, str(e)[:100]); break
print("trees", ntree, kinds, "bad", nbad)
