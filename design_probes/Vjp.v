From Coq Require Import Reals List Lra.
Import ListNotations.
Open Scope R_scope.

(* tiny prototype: expressions over variables nat; option R = finite or poisoned *)
Inductive expr :=
| Var (v : nat) | Const (c : R)
| Add (a b : expr) | Mul (a b : expr) | Div (a b : expr) | Log (a : expr)
| Where (c1 c2 : expr) (a b : expr).   (* where (c1 <= c2) a b *)

Definition oR := option R.
Definition omul (a b : oR) : oR := match a, b with Some x, Some y => Some (x*y) | _, _ => None end.
Definition oadd (a b : oR) : oR := match a, b with Some x, Some y => Some (x+y) | _, _ => None end.
Definition odiv (a b : oR) : oR :=
  match a, b with Some x, Some y => if Req_EM_T y 0 then None else Some (x/y) | _, _ => None end.
Definition olog (a : oR) : oR := match a with Some x => if Rlt_dec 0 x then Some (ln x) else None | None => None end.
Definition oinv_for_grad (a : oR) : oR := match a with Some x => if Req_EM_T x 0 then None else Some (/x) | None => None end.
Definition oneg (a : oR) : oR := match a with Some x => Some (-x) | None => None end.
Definition oleb (a b : oR) : option bool := match a, b with Some x, Some y => Some (if Rle_dec x y then true else false) | _, _ => None end.

Section S.
Variable env : nat -> R.

(* value semantics: where SELECTS (NaN in the other branch is dropped) *)
Fixpoint veval (e : expr) : oR :=
  match e with
  | Var v => Some (env v) | Const c => Some c
  | Add a b => oadd (veval a) (veval b) | Mul a b => omul (veval a) (veval b)
  | Div a b => odiv (veval a) (veval b) | Log a => olog (veval a)
  | Where c1 c2 a b => match oleb (veval c1) (veval c2) with
                       | Some true => veval a | Some false => veval b | None => None end
  end.

(* reverse mode: adjoint g flows down; gradient w.r.t. variable x accumulated in option R.
   Local partials are computed from the (possibly poisoned) values of the operands, as JAX does. *)
Fixpoint vjp (e : expr) (g : oR) (x : nat) : oR :=
  match e with
  | Var v => if Nat.eqb v x then g else Some 0
  | Const _ => Some 0
  | Add a b => oadd (vjp a g x) (vjp b g x)
  | Mul a b => oadd (vjp a (omul g (veval b)) x) (vjp b (omul g (veval a)) x)
  | Div a b => oadd (vjp a (odiv g (veval b)) x)
                    (vjp b (oneg (odiv (omul g (veval a)) (omul (veval b) (veval b)))) x)
  | Log a => vjp a (odiv g (veval a)) x
  | Where c1 c2 a b =>
      match oleb (veval c1) (veval c2) with
      | Some t => oadd (vjp a (if t then g else Some 0) x) (vjp b (if t then Some 0 else g) x)
      | None => None end
  end.

(* Safe: every partial primitive in EVERY branch is inside its smooth domain *)
Fixpoint Safe (e : expr) : Prop :=
  match e with
  | Var _ | Const _ => True
  | Add a b | Mul a b => Safe a /\ Safe b
  | Div a b => Safe a /\ Safe b /\ (forall y, veval b = Some y -> y <> 0)
  | Log a => Safe a /\ (forall y, veval a = Some y -> 0 < y)
  | Where c1 c2 a b => Safe c1 /\ Safe c2 /\ Safe a /\ Safe b
  end.

Lemma safe_value e : Safe e -> exists v, veval e = Some v.
Proof.
  induction e as [v|c|a IHa b IHb|a IHa b IHb|a IHa b IHb|a IHa|c1 IH1 c2 IH2 a IHa b IHb]; cbn [Safe veval].
  - eauto. - eauto.
  - intros [Ha Hb]. destruct (IHa Ha) as [x ->], (IHb Hb) as [y ->]. cbn; eauto.
  - intros [Ha Hb]. destruct (IHa Ha) as [x ->], (IHb Hb) as [y ->]. cbn; eauto.
  - intros (Ha & Hb & Hnz). destruct (IHa Ha) as [x ->], (IHb Hb) as [y Hy]. rewrite Hy. cbn.
    destruct (Req_EM_T y 0) as [E|E]; [exfalso; exact (Hnz y Hy E)| eauto].
  - intros (Ha & Hpos). destruct (IHa Ha) as [x Hx]. rewrite Hx. cbn.
    destruct (Rlt_dec 0 x) as [L|L]; [eauto | exfalso; exact (L (Hpos x Hx))].
  - intros (H1 & H2 & Ha & Hb). destruct (IH1 H1) as [x ->], (IH2 H2) as [y ->]. cbn.
    destruct (Rle_dec x y); [apply IHa | apply IHb]; assumption.
Qed.

Theorem safe_finite e : Safe e -> forall g x, (exists r, g = Some r) -> exists r, vjp e g x = Some r.
Proof.
  induction e as [v|c|a IHa b IHb|a IHa b IHb|a IHa b IHb|a IHa|c1 IH1 c2 IH2 a IHa b IHb];
    cbn [Safe vjp]; intros HS g x [r ->].
  - destruct (Nat.eqb v x); eauto.
  - eauto.
  - destruct HS as [Ha Hb].
    destruct (IHa Ha (Some r) x) as [p ->]; [eauto|]. destruct (IHb Hb (Some r) x) as [q ->]; [eauto|]. cbn; eauto.
  - destruct HS as [Ha Hb].
    destruct (safe_value a Ha) as [va ->], (safe_value b Hb) as [vb ->]. cbn.
    destruct (IHa Ha (Some (r*vb)) x) as [p ->]; [eauto|]. destruct (IHb Hb (Some (r*va)) x) as [q ->]; [eauto|]. cbn; eauto.
  - destruct HS as (Ha & Hb & Hnz).
    destruct (safe_value a Ha) as [va ->], (safe_value b Hb) as [vb Hvb]. rewrite Hvb. cbn.
    destruct (Req_EM_T vb 0) as [E|E]; [exfalso; exact (Hnz vb Hvb E)|].
    destruct (Req_EM_T (vb*vb) 0) as [E2|E2]; [exfalso; apply Rmult_integral in E2; tauto|].
    cbn.
    destruct (IHa Ha (Some (r/vb)) x) as [p ->]; [eauto|].
    destruct (IHb Hb (Some (- (r*va/(vb*vb)))) x) as [q ->]; [eauto|]. cbn; eauto.
  - destruct HS as (Ha & Hpos). destruct (safe_value a Ha) as [va Hva]. rewrite Hva. cbn.
    destruct (Req_EM_T va 0) as [E|E]; [exfalso; specialize (Hpos va Hva); lra|].
    apply IHa; eauto.
  - destruct HS as (H1 & H2 & Ha & Hb).
    destruct (safe_value c1 H1) as [x1 ->], (safe_value c2 H2) as [x2 ->]. cbn.
    destruct (Rle_dec x1 x2).
    + destruct (IHa Ha (Some r) x) as [p ->]; [eauto|]. destruct (IHb Hb (Some 0) x) as [q ->]; [eauto|]. cbn; eauto.
    + destruct (IHa Ha (Some 0) x) as [p ->]; [eauto|]. destruct (IHb Hb (Some r) x) as [q ->]; [eauto|]. cbn; eauto.
Qed.
End S.

(* the pitfall, as a refutation: where (x <= 0) 1 (log x) at x = 0: value fine, gradient poisoned *)
Definition pit := Where (Var 0) (Const 0) (Const 1) (Log (Var 0)).
Example pit_value : veval (fun _ => 0) pit = Some 1.
Proof. cbn. destruct (Rle_dec 0 0); [reflexivity | lra]. Qed.
Example pit_grad_poisoned : vjp (fun _ => 0) pit (Some 1) 0%nat = None.
Proof. cbn. destruct (Rle_dec 0 0); [|lra]. cbn. destruct (Req_EM_T 0 0); [reflexivity | lra]. Qed.
Print Assumptions safe_finite.
