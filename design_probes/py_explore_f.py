from common import *
import time
key = jr.PRNGKey(2)
def quad1d(d, cond=None, n=4001, L=12.0):
    # sinh-stretched Gauss-Legendre on R
    t, w = np.polynomial.legendre.leggauss(n)
    a = 6.0; x = np.sinh(a*t) / np.sinh(a) * 200.0; dx = a*np.cosh(a*t)/np.sinh(a)*200.0
    lp = np.asarray(d.log_prob(x[:,None] if d.shape==(1,) else x, cond))
    return float(np.sum(w*dx*np.exp(lp)))
def quad2d(d, cond=None, n=301):
    t, w = np.polynomial.legendre.leggauss(n)
    a = 5.0; x = np.sinh(a*t)/np.sinh(a)*60.0; dx = a*np.cosh(a*t)/np.sinh(a)*60.0
    X, Y = np.meshgrid(x, x, indexing="ij"); pts = np.stack([X.ravel(), Y.ravel()], -1)
    lp = np.asarray(d.log_prob(pts, cond)).reshape(n, n)
    return float(np.einsum("i,j,ij->", w*dx, w*dx, np.exp(lp)))
b1 = Normal(jnp.zeros(1)); b2 = Normal(jnp.zeros(2))
facs = {
 "coupling2": lambda inv, c: coupling_flow(key, base_dist=b2, cond_dim=c, flow_layers=2, nn_width=6, invert=inv),
 "maf2": lambda inv, c: masked_autoregressive_flow(key, base_dist=b2, cond_dim=c, flow_layers=2, nn_width=6, invert=inv),
 "maf2rqs": lambda inv, c: masked_autoregressive_flow(key, base_dist=b2, cond_dim=c, flow_layers=2, nn_width=6, invert=inv, transformer=RationalQuadraticSpline(knots=4, interval=3)),
 "bnaf2": lambda inv, c: block_neural_autoregressive_flow(key, base_dist=b2, cond_dim=c, nn_block_dim=3, flow_layers=1, invert=inv),
 "planar2": lambda inv, c: planar_flow(key, base_dist=b2, cond_dim=c, flow_layers=2, invert=inv, negative_slope=0.2, **({} if c is None else dict(width_size=4, depth=1))),
 "tspline2": lambda inv, c: triangular_spline_flow(key, base_dist=b2, cond_dim=c, flow_layers=2, knots=4, invert=inv),
}
for name, f in facs.items():
    for inv in (True, False):
        for c in (None, 2):
            if name == "bnaf2" and not inv: pass
            try:
                d = perturb(f(inv, c), jr.PRNGKey(7), 0.5)
                cond = None if c is None else jnp.array([0.4, -1.1])
                t0 = time.time(); I = quad2d(d, cond); t1 = time.time()
                # C03 identities at a few points
                s, lp = d.sample_and_log_prob(jr.PRNGKey(3), (5,), cond)
                e = float(jnp.max(jnp.abs(d.log_prob(s, cond) - lp)))
                print(f"{name:10s} inv={inv!s:5s} cond={c!s:4s} integral {I:.6f}  ({t1-t0:.1f}s)  |lp(sample)-lp| {e:.1e}")
            except Exception as ex:
                print(name, inv, c, "ERR", type(ex).__name__, str(ex)[:100])
