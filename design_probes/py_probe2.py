import jax, jax.numpy as jnp, equinox as eqx, jax.random as jr
jax.config.update("jax_enable_x64", True)
from flowjax.bijections import *
from flowjax.distributions import *
from flowjax.flows import *
from flowjax.wrappers import unwrap
import numpy as np
def gradnan(dist, x, cond=None):
    g = eqx.filter_grad(lambda d: d.log_prob(x, cond).sum())(dist)
    leaves = jax.tree_util.tree_leaves(g)
    gx = jax.grad(lambda x: dist.log_prob(x, cond).sum())(x)
    return any(bool(jnp.isnan(l).any()) for l in leaves), bool(jnp.isnan(gx).any()), float(dist.log_prob(x,cond).sum())
key = jr.PRNGKey(0)
# spline in Transformed both orientations
s = RationalQuadraticSpline(knots=4, interval=2)
for name, b in [("spline", s), ("Invert spline", Invert(s)), ("LeakyTanh", LeakyTanh(3.0)), ("Invert LeakyTanh", Invert(LeakyTanh(3.0))), ("softplus", Invert(SoftPlus())), ("tanh inv", Invert(Tanh()))]:
    d = Transformed(StandardNormal(()), b)
    for x in [-2.0, 2.0, -1.0, 0., 3.0, -3.0, float(jnp.tanh(3.0)), 1.0, -1.0, 1e4, np.nextafter(2.0, 3), np.nextafter(-2.0,-3), -0.8, -1.6, 1.6]:
        try:
            print(name, x, gradnan(d, jnp.asarray(x)))
        except Exception as e:
            print(name, x, "ERR", type(e).__name__, str(e)[:100])
