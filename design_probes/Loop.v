From Coq Require Import List ZArith Lia Bool.
Import ListNotations.
Open Scope Z_scope.

(* index (nat) of the FIRST minimum of a non-empty list, like jnp.argmin *)
Fixpoint argmin_from (best : Z) (bi i : nat) (l : list Z) : nat :=
  match l with [] => bi | x :: t => if x <? best then argmin_from x i (S i) t else argmin_from best bi (S i) t end.
Definition argmin (l : list Z) : nat := match l with [] => O | x :: t => argmin_from x O 1%nat t end.
Definition minimum (l : list Z) : Z := fold_right Z.min (hd 0 l) l.
Definition count_fruitless (l : list Z) : nat := (length l - argmin l - 1)%nat.

(* fit_to_data control flow.  vals: validation loss the loop WOULD see at epoch e (post-update params).
   params are identified by the epoch after which they were obtained (0 = initial). *)
Record st := { seen : list Z; best : nat; cur : nat; stopped : bool }.
Definition epoch (P : nat) (s : st) (v : Z) : st :=
  if stopped s then s else
  let seen' := seen s ++ [v] in let cur' := S (cur s) in
  if v =? minimum seen' then {| seen := seen'; best := cur'; cur := cur'; stopped := false |}
  else if (P <? count_fruitless seen')%nat then {| seen := seen'; best := best s; cur := cur'; stopped := true |}
  else {| seen := seen'; best := best s; cur := cur'; stopped := false |}.
Definition run (P : nat) (vals : list Z) (max_epochs : nat) : st :=
  fold_left (epoch P) (firstn max_epochs vals) {| seen := []; best := O; cur := O; stopped := false |}.
Definition result (P : nat) (vals : list Z) (max_epochs : nat) (return_best : bool) : nat * nat :=
  let s := run P vals max_epochs in ((if return_best then best s else cur s), length (seen s)).

Eval vm_compute in result 1 [5;3;4;6;1;0] 10 true.   (* stops after epoch 4 (2 fruitless > 1): (2, 4) *)
Eval vm_compute in result 1 [5;3;4;6;1;0] 10 false.
Eval vm_compute in result 0 [5;3;4;6;1;0] 10 true.   (* patience 0: stops at epoch 3: (2,3) *)
Eval vm_compute in result 5 [5;3;4;6;1;0] 4 true.

(* invariant: epochs run never exceed max_epochs, one val loss per epoch run *)
Lemma epoch_len P s v : (length (seen (epoch P s v)) <= S (length (seen s)) /\ cur (epoch P s v) <= S (cur s))%nat.
Proof.
  unfold epoch. destruct (stopped s); [lia|].
  destruct (v =? _); [cbn; rewrite app_length; cbn; lia|].
  destruct (_ <? _)%nat; cbn; rewrite app_length; cbn; lia.
Qed.
Lemma fold_len P l : forall s, (length (seen (fold_left (epoch P) l s)) <= length (seen s) + length l)%nat.
Proof. induction l as [|v l IH]; intros s; cbn [fold_left length]; [lia|].
  specialize (IH (epoch P s v)). pose proof (epoch_len P s v). lia. Qed.
Theorem epochs_le_max P vals m : (length (seen (run P vals m)) <= m)%nat.
Proof. unfold run. pose proof (fold_len P (firstn m vals) {| seen := []; best := O; cur := O; stopped := false |}) as H.
  cbn in H. pose proof (firstn_le_length m vals). lia. Qed.
Print Assumptions epochs_le_max.
