from common import *
import time
key = jr.PRNGKey(2)
def panels_1d(R=1e6, core=12.0, h=0.05, ratio=1.5, order=12):
    edges = list(np.arange(-core, core + 1e-12, h))
    e = core; step = h
    out = []
    while e < R:
        step *= ratio; out.append(min(e + step, R)); e = out[-1]
    edges = [-v for v in reversed(out)] + edges + out
    edges = np.array(edges)
    t, w = np.polynomial.legendre.leggauss(order)
    a, b = edges[:-1, None], edges[1:, None]
    x = (a + b)/2 + (b - a)/2 * t[None, :]; ww = (b - a)/2 * w[None, :]
    return x.ravel(), ww.ravel()
x1, w1 = panels_1d()
print("1d nodes", len(x1))
def quad1d(d, cond=None):
    lp = np.asarray(d.log_prob(x1[:, None], cond)); return float(np.sum(w1*np.exp(lp)))
b1 = Normal(jnp.zeros(1))
for name, mk in {
  "bnaf1": lambda inv: block_neural_autoregressive_flow(key, base_dist=b1, nn_block_dim=3, flow_layers=1, invert=inv),
  "maf1rqs": lambda inv: masked_autoregressive_flow(key, base_dist=b1, flow_layers=2, nn_width=4, invert=inv, transformer=RationalQuadraticSpline(knots=4, interval=3)),
  "tspline1": lambda inv: triangular_spline_flow(key, base_dist=b1, flow_layers=2, knots=4, invert=inv),
  "planar1": lambda inv: planar_flow(key, base_dist=b1, flow_layers=2, invert=inv, negative_slope=0.2),
}.items():
    for inv in (True, False):
        try:
            d = perturb(mk(inv), jr.PRNGKey(7), 0.5)
            t0=time.time(); I = quad1d(d); print(f"{name:10s} inv={inv!s:5s} integral {I:.8f} ({time.time()-t0:.1f}s)")
        except Exception as ex: print(name, inv, "ERR", type(ex).__name__, str(ex)[:80])
# 2-D with coarser panels
x2, w2 = panels_1d(R=1e5, core=8.0, h=0.1, ratio=1.6, order=8)
print("2d nodes per axis", len(x2))
X, Y = np.meshgrid(x2, x2, indexing="ij"); pts = np.stack([X.ravel(), Y.ravel()], -1); W = (w2[:,None]*w2[None,:]).ravel()
b2 = Normal(jnp.zeros(2))
for name, mk in {
  "bnaf2": lambda inv, c: block_neural_autoregressive_flow(key, base_dist=b2, cond_dim=c, nn_block_dim=3, flow_layers=1, invert=inv),
  "maf2rqs": lambda inv, c: masked_autoregressive_flow(key, base_dist=b2, cond_dim=c, flow_layers=2, nn_width=6, invert=inv, transformer=RationalQuadraticSpline(knots=4, interval=3)),
}.items():
    for inv, c, sc in [(True, None, 0.5), (True, None, 0.2), (True, 2, 0.2), (False, None, 0.2)]:
        if name == "bnaf2" and not inv: continue
        d = perturb(mk(inv, c), jr.PRNGKey(7), sc); cond = None if c is None else jnp.array([0.4,-1.1])
        t0=time.time()
        lp = np.concatenate([np.asarray(d.log_prob(pts[i:i+200000], cond)) for i in range(0, len(pts), 200000)])
        print(f"{name:8s} inv={inv!s:5s} c={c} pert={sc} integral {float(np.sum(W*np.exp(lp))):.6f} ({time.time()-t0:.1f}s)")
