from common import *
import itertools, optax
from flowjax.bisection_search import _bisection_search, AutoregressiveBisectionInverter, _autoregressive_bisection_search
from flowjax.train import fit_to_data, fit_to_variational_target
# ---- C10 family
fam = {
 "lin steep": (lambda x, r: 1e4*(x-r)), "lin flat": (lambda x, r: 1e-4*(x-r)), "cubic": (lambda x, r: (x-r)**3 + 0.1*(x-r)),
 "sinh": (lambda x, r: jnp.sinh((x-r)/50)), "sat": (lambda x, r: jnp.tanh(x-r) + 1e-3*(x-r)), "kink": (lambda x, r: jnp.where(x<r, 0.01*(x-r), 7*(x-r))),
}
bad=0; n=0
for (nm, f), r, tol, (lo, up) in itertools.product(fam.items(), [0.3, -10.0, 10.0, 10.0000001, -1e6, 1e6, 1/3, 9.999999], [1e-2, 1e-5, 1e-9], [(-10., 10.), (0., 1.), (-1e-3, 1e-3)]):
    root, ai, it = _bisection_search(lambda x: f(x, r), lower=jnp.asarray(lo), upper=jnp.asarray(up), tol=tol, max_iter=200)
    n+=1
    res = max(tol, 4*np.spacing(abs(r)))
    if not abs(float(root) - r) <= res*1.0000001:
        bad+=1; print("C10 FAIL", nm, r, tol, lo, up, float(root), int(ai), int(it), abs(float(root)-r), res)
print("C10 cases", n, "bad", bad)
# ---- C16 fit_to_data: all permutations
class M(eqx.Module):
    p: jax.Array
def counting():
    return optax.GradientTransformation(lambda params: (), lambda g, s, params=None: (jax.tree_util.tree_map(jnp.ones_like, g), s))
def model(vals, P, maxe, rb):
    seen=[]; best=0; cur=0
    for e in range(min(maxe, len(vals))):
        seen.append(vals[e]); cur=e+1
        if vals[e] == min(seen): best=cur
        elif len(seen)-1-int(np.argmin(seen)) > P: break
    return (best if rb else cur), len(seen)
bad=0; n=0
x = jnp.arange(4.)[:,None]
for L in [1,2,3,4]:
    for perm in itertools.permutations(range(1, L+1)):
        table = jnp.asarray((0.,) + tuple(float(v) for v in perm) + (99.,)*3)
        def loss_fn(params, static, x, condition=None, key=None): return table[params.p.astype(int)] + 0*params.p.sum()
        for P, maxe, rb in itertools.product(range(0, L+1), range(0, L+1), [True, False]):
            d, losses = fit_to_data(jr.PRNGKey(0), M(jnp.array(0.)), x, loss_fn=loss_fn, max_epochs=maxe, max_patience=P, batch_size=3, val_prop=0.25, optimizer=counting(), return_best=rb, show_progress=False)
            exp = model(list(perm), P, maxe, rb); got = (int(d.p), len(losses["val"])); n+=1
            if got != exp or len(losses["train"]) != len(losses["val"]): bad+=1; print("C16 data MISMATCH", perm, P, maxe, rb, got, exp)
print("C16 fit_to_data runs", n, "bad", bad)
# variational
bad=0; n=0
for L in [1,2,3,4]:
    for perm in itertools.permutations(range(1, L+1)):
        table = jnp.asarray(tuple(float(v) for v in perm) + (99.,)*3)
        def vloss(params, static, key): return table[params.p.astype(int)] + 0*params.p.sum()
        for steps, rb in itertools.product(range(0, L+1), [True, False]):
            d, losses = fit_to_variational_target(jr.PRNGKey(0), M(jnp.array(0.)), vloss, steps=steps, optimizer=counting(), return_best=rb, show_progress=False)
            n+=1
            want = (int(np.argmin(perm[:steps])) if steps else 0) if rb else steps   # params index where the min recorded loss was EVALUATED
            if int(d.p) != want or len(losses) != steps:
                bad+=1
                if bad <= 3: print("C16 variational", perm, steps, rb, "got", int(d.p), "want", want, len(losses))
print("C16 variational runs", n, "bad", bad)
