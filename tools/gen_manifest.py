#!/usr/bin/env python3
"""Regenerates /verif/MANIFEST.json from the MANIFEST dict literal of every harness/cXX.py
(no imports of the harness: ast.literal_eval).  Properties without a harness module are listed
under not_applicable with the reason stored in tools/not_claimed.json."""
import ast, json, os, re
V = os.path.dirname(os.path.dirname(os.path.abspath(__file__)))
props = [json.loads(l)["id"] for l in open(os.path.join(V, "properties.jsonl")) if l.strip()]
nc = json.load(open(os.path.join(V, "tools", "not_claimed.json")))
claimed = set(json.load(open(os.path.join(V, "tools", "claimed.json"))))  # checks verified green on the unchanged tree by the orchestrator
checks, na, engines = [], [], []
for pid in props:
    f = os.path.join(V, "harness", pid.lower() + ".py")
    m = None
    if os.path.exists(f):
        tree = ast.parse(open(f).read())
        for n in tree.body:
            if isinstance(n, ast.Assign) and getattr(n.targets[0], "id", None) == "MANIFEST":
                m = ast.literal_eval(n.value)
    if m is None or m.get("disabled") or pid not in claimed:
        na.append({"property_id": pid, "reason": nc.get(pid, (m or {}).get("disabled", "check not built yet in this round; see DESIGN.md section 4 for the plan"))})
        continue
    checks.append({
        "property_id": pid,
        "quick_cmd": f"./check {pid} --tier quick",
        "thorough_cmd": f"./check {pid} --tier thorough",
        "evidence_file": f"/verif/evidence/{pid}.json",
        "replay_cmd_template": f"./check {pid} --replay {{path}}",
        "engine": "coq-model+correspondence",
        "level_claimed": {"category": m.get("category", "proof"), "text": m["text"], "design_ref": m["design_ref"]},
        "level_note": m["note"],
        "technique": m["technique"],
    })
man = {
    "version": 1,
    "setup_cmd": "./build.sh all",
    "hooks": {"guard": "FLOWJAX_VERIF", "enable": "no hooks are needed: every observation point is public API (loss_fn/optimizer arguments, bijection methods, unwrap); checks import flowjax from /repo's working tree with PYTHONPATH=/repo",
              "baseline_off_cmd": "cd /repo && env -u FLOWJAX_VERIF /venv/bin/python -m pytest -ra -q -p no:cacheprovider --timeout=900 --continue-on-collection-errors",
              "source_commits": [], "add_only": True},
    "engines": [{"name": "coq-model+correspondence", "path": "/verif/check",
                 "serves_properties": [c["property_id"] for c in checks],
                 "kind_free_text": "Coq 8.16 theorems about hand-written executable Gallina models (coq/Model, coq/Proofs, coq/Props) + the same models extracted to OCaml and run next to the real flowjax code from /repo on generated cases on every run (harness/), with the property's own oracle as the search for a concrete failing input"}],
    "checks": checks,
    "not_applicable": na,
    "notes": "See DESIGN.md. Repairs of genuine defects found: known_findings.json (fixed: entries) and 'fix:' commits in /repo.",
}
json.dump(man, open(os.path.join(V, "MANIFEST.json"), "w"), indent=1)
print(f"{len(checks)} checks, {len(na)} not claimed")
