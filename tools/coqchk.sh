#!/bin/bash
# Re-checks every compiled property file (and everything it depends on) with the independent checker and prints the axioms used.
cd "$(dirname "$0")/../coq" && coqchk -silent -o -Q . FJ $(ls Props/*.vo | sed 's|Props/\(.*\)\.vo|FJ.Props.\1|') 2>&1 | tee COQCHK.txt
