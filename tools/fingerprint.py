#!/usr/bin/env python3
"""AST fingerprints of every flowjax source file (docstrings and comments ignored).
  /venv/bin/python tools/fingerprint.py write   -> harness/fingerprints.json for /repo as it is now (run after every fix:
                                                    commit, with the interpreter the checks use)
  tools/fingerprint.py diff [repo] -> files whose fingerprint differs from the stored one"""
import ast, glob, hashlib, json, os, sys
V = os.path.dirname(os.path.dirname(os.path.abspath(__file__)))


def strip_doc(tree):
    for n in ast.walk(tree):
        if isinstance(n, (ast.FunctionDef, ast.AsyncFunctionDef, ast.ClassDef, ast.Module)) and n.body and isinstance(n.body[0], ast.Expr) \
                and isinstance(getattr(n.body[0], "value", None), ast.Constant) and isinstance(n.body[0].value.value, str):
            n.body = n.body[1:] or [ast.Pass()]
    return tree


def fingerprints(repo):
    out = {}
    for f in sorted(glob.glob(os.path.join(repo, "flowjax", "**", "*.py"), recursive=True)):
        rel = os.path.relpath(f, repo)
        try:
            out[rel] = hashlib.sha256(ast.dump(strip_doc(ast.parse(open(f).read()))).encode()).hexdigest()[:16]
        except SyntaxError:
            out[rel] = "syntax-error"
    return out


def changed(repo):
    stored = json.load(open(os.path.join(V, "harness", "fingerprints.json")))
    if stored.pop("__python__", None) != list(sys.version_info[:2]):
        return []  # ast.dump differs between interpreter versions: fingerprints are only comparable under the same one
    now = fingerprints(repo)
    return sorted(k for k in set(stored) | set(now) if stored.get(k) != now.get(k))


if __name__ == "__main__":
    if sys.argv[1:2] == ["write"]:
        fps = fingerprints("/repo")
        fps["__python__"] = list(sys.version_info[:2])
        json.dump(fps, open(os.path.join(V, "harness", "fingerprints.json"), "w"), indent=1, sort_keys=True)
        print("written")
    else:
        print(changed(sys.argv[2] if len(sys.argv) > 2 else "/repo"))
