#!/bin/bash
# usage: tools/try_mutation.sh <mutation dir with patch.diff/demo.py> <worktree with the change applied> <Cxx> [Cyy...]
# Confirms the demo (fails with change, passes without) and runs the named checks against the changed tree.
m=$1; wt=$2; shift 2
cd /verif
echo "== demo on changed tree"; (cd $wt && JAX_PLATFORMS=cpu PYTHONPATH=$wt timeout 900 /venv/bin/python $m/demo.py 2>&1 | tail -3; echo "exit ${PIPESTATUS[0]}")
echo "== demo on /repo"; (cd /repo && JAX_PLATFORMS=cpu PYTHONPATH=/repo timeout 900 /venv/bin/python $m/demo.py 2>&1 | tail -2; echo "exit ${PIPESTATUS[0]}")
for p in "$@"; do
  echo "== check $p against the changed tree"
  VERIF_EVIDENCE_DIR=/tmp/ev_trial VERIF_REPO=$wt ./check $p --no-build 2>&1 | grep -v "^WARNING" | tail -6   # evidence/ must come from runs against /repo only
done
