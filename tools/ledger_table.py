#!/usr/bin/env python3
"""Renders seeded/ledger.json as the markdown table of DESIGN.md section 12 (between the two markers)."""
import json, os, re
V = os.path.dirname(os.path.dirname(os.path.abspath(__file__)))
L = json.load(open(os.path.join(V, "seeded", "ledger.json")))["entries"]
byid = {}
for e in L:  # later entries refine earlier ones
    d = byid.setdefault(e["id"], {"breaks": [], "caught_by": {}, "what": "", "missed_first": False, "hard_mode": False})
    d["breaks"] = sorted(set(d["breaks"]) | set(e.get("breaks", [])))
    d["caught_by"].update(e.get("caught_by", {}))
    d["what"] = e.get("what", d["what"])
    d["missed_first"] |= bool(e.get("missed_first"))
    d["hard_mode"] |= bool(e.get("hard_mode"))
rows = ["| change | what it does | breaks | caught by (concrete input unless noted) |", "|---|---|---|---|"]
for k in sorted(byid, key=lambda s: (not s.startswith("revert"), s)):
    d = byid[k]
    what = d["what"] or ("reverse of the `fix:` commit for " + k.replace("revert-", ""))
    flag = (" **(hard mode)**" if d["hard_mode"] else "") + (" **(missed at first; check strengthened)**" if d["missed_first"] else "")
    esc = lambda t: t.replace("|", "\\|")  # noqa: E731
    caught = "; ".join(f"{p}: {esc(t)}" for p, t in sorted(d["caught_by"].items())) or "**NOT CAUGHT** (see note in seeded/ledger.json)"
    rows.append(f"| `seeded/{k}` | {esc(what)}{flag} | {', '.join(d['breaks'])} | {caught} |")
n = len(byid); missed = sum(1 for d in byid.values() if d["missed_first"])
txt = f"{n} seeded changes ({sum(1 for k in byid if k.startswith('revert'))} reverse patches of repaired defects, {n - sum(1 for k in byid if k.startswith('revert'))} written by independent sub-agents that saw only the property text); {missed} were missed by the checks as they stood and led to the strengthening noted; all but those marked NOT CAUGHT are caught now.\n\n" + "\n".join(rows)
p = os.path.join(V, "DESIGN.md"); s = open(p).read()
a, b = "<!-- LEDGER-BEGIN -->", "<!-- LEDGER-END -->"
if a not in s:
    s += f"\n\n## 12. Seeded changes and the checks that catch them\n\n{a}\n{b}\n"
s = s[: s.index(a) + len(a)] + "\n" + txt + "\n" + s[s.index(b):]
open(p, "w").write(s)
print(n, "changes,", missed, "missed at first")
