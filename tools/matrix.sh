#!/bin/bash
# Runs every seeded change against the checks of the properties it is meant to break (and optionally more).
# usage: tools/matrix.sh [id ...]      results: one line per (change, check) on stdout
cd "$(dirname "$0")/.."
V=$(pwd)
wt=/tmp/wt_matrix_$$
git -C /repo worktree add --detach $wt HEAD >/dev/null 2>&1
declare -A T=(
 [revert-D1]="C01 C18" [revert-D2]="C18" [revert-D3]="C08 C13" [revert-D4]="C08 C13" [revert-D5]="C16" [revert-D6]="C12 C14"
 [revert-D7]="C01 C11 C07" [revert-D8]="C12" [revert-D9]="C18"
 [C01a]="C01 C07 C11" [C01b]="C01 C11" [C02a]="C02" [C03a]="C03" [C04a]="C04 C01 C07" [C05a]="C05 C02" [C06a]="C06" [C07a]="C07"
 [C08a]="C08 C03" [C08b]="C08 C13" [C09a]="C09 C01" [C10a]="C10" [C11a]="C11" [C12a]="C12" [C13a]="C13" [C14a]="C14" [C15a]="C15"
 [C16a]="C16" [C17a]="C17" [C18a]="C18" [C02b]="C02" )
ids="$@"; [ -z "$ids" ] && ids=$(ls seeded | grep -v ledger)
for id in $ids; do
  [ -f seeded/$id/patch.diff ] || continue
  git -C $wt checkout -q -- . ; git -C $wt clean -fdq
  if ! git -C $wt apply $V/seeded/$id/patch.diff 2>/dev/null; then echo "MATRIX $id PATCH-DOES-NOT-APPLY"; continue; fi
  for p in ${T[$id]}; do
    [ -f harness/${p,,}.py ] || { echo "MATRIX $id $p no-check"; continue; }
    out=$(VERIF_REPO=$wt VERIF_EVIDENCE_DIR=/tmp/ev_matrix_$$ timeout 1500 ./check $p --no-build 2>&1 | grep -v "^WARNING")
    nv=$(echo "$out" | grep -c "^VIOLATION")
    ni=$(echo "$out" | grep "^VIOLATION" | grep -vc "no-failing-input-found")
    first=$(echo "$out" | grep -A1 "^VIOLATION" | grep -v "no-failing-input-found" | grep "^  (" | head -1 | cut -c1-220)
    echo "MATRIX $id $p violations=$nv with_input=$ni $first"
  done
done
git -C /repo worktree remove --force $wt
rm -rf /tmp/ev_matrix_$$
